#!/bin/bash
# confirm_seed.sh <ID> [<name>] : independently confirm a seeded change produced in /tmp/seed/<ID>:
#   (1) unedited suite passes with it, (2) demo fails with it, (3) demo passes without it.
# On success archive patch.diff, demo and meta.json under /verif/seeded/<name>/ .
id="$1"; name="${2:-$1}"; root="${SEEDROOT:-/tmp/seed}"; w=$root/$id
export PYTHONDONTWRITEBYTECODE=1
unset PYDBML_VERIF
cd "$w" || exit 2
# (git stash is shared by all worktrees of a repository: never use it here, agents may run concurrently)
if [ -s patch.diff ] && ! git diff -- pydbml | cmp -s - patch.diff; then
  echo "$id: working tree differs from the agent's patch.diff -> tree reset to HEAD + patch.diff"
  git checkout -q -- pydbml && git apply patch.diff || { echo "$id: patch.diff does not apply"; exit 1; }
fi
git diff -- pydbml > $root/$id.patch
[ -s $root/$id.patch ] || { echo "$id: empty patch"; exit 1; }
git status --short | grep -v '^??' | grep -v ' pydbml/' && { echo "$id: touches files outside pydbml"; }
imp=$(/venv/bin/python -c "import pydbml;print(pydbml.__file__)")
case "$imp" in $w/*) ;; *) echo "$id: wrong import $imp"; exit 2;; esac
t_with=$(/venv/bin/python -m pytest -q -p no:cacheprovider 2>&1 | tail -1)
/venv/bin/python demo_$id.py > $root/$id.with.out 2>&1; rc_with=$?
git apply -R $root/$id.patch || { echo "$id: cannot reverse the patch"; exit 2; }
/venv/bin/python demo_$id.py > $root/$id.without.out 2>&1; rc_without=$?
git apply $root/$id.patch
echo "$id: suite[$t_with] demo_with=$rc_with demo_without=$rc_without"
case "$t_with" in *"470 passed"*) ;; *) echo "$id: suite does not pass"; exit 1;; esac
[ $rc_with = 1 ] && [ $rc_without = 0 ] || { echo "$id: demo does not discriminate"; exit 1; }
d=/verif/seeded/$name; mkdir -p $d
cp $root/$id.patch $d/patch.diff; cp demo_$id.py $d/demo.py; [ -f NOTES.md ] && cp NOTES.md $d/NOTES.md
python3 - "$id" "$d" "$t_with" <<'PY'
import json,sys
id,d,t=sys.argv[1:4]
notes=open(d+'/NOTES.md').read() if __import__('os').path.exists(d+'/NOTES.md') else ''
json.dump({'property':id,'produced_by':'independent sub-agent given only the property text and a scratch worktree',
 'needs_to_manifest':notes[:3000],
 'confirmed':{'suite_with_change':t,'demo_with_change':'exit 1 (FAIL)','demo_without_change':'exit 0 (PASS)',
   'how':'tools/confirm_seed.sh in the scratch worktree (pytest unedited, demo with the patch, demo with the patch stashed)'},
 'detected_by':None}, open(d+'/meta.json','w'), indent=1)
PY
