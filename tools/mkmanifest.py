#!/usr/bin/env python3
"""Writes /verif/MANIFEST.json from the table below (one source of truth for claimed checks)."""
import json, os
V = os.path.dirname(os.path.dirname(os.path.abspath(__file__)))

CLAIMED = {
 # id: (technique, level text, level note, design ref)
 'C09': ('TLC exhaustive reachability of Container.tla over finite object universes; every (state, call) replayed on real '
         'Database/Table objects; TLC trace validation of each (pre, call, post) triple against Container!Step; the repository\'s own '
         'test-suite, the parser\'s phase-2 schedules and edit histories recorded at the container methods and validated against ContainerInv.tla',
         'Container.tla is model-checked (complete reachable graph of each universe, so histories of any length over it) '
         'against the declarative C09 invariants; the real container is driven along every transition (thorough) or a '
         'seeded sample (quick) plus TLC-chosen random walks, and TLC decides for each recorded triple whether it is a spec step',
         'trusted: TLC, the projection/universe builder in pv/container_exec.py, the transcription of SQLObject.__eq__ into Eq*',
         'DESIGN.md 2.2, 4.6, 5 (C09)'),
}
CLAIMED['C01'] = ('TLC-generated abstract documents (GenDoc.tla) printed in swept and random surface forms, parsed by /repo; '
                  'TLC compares the projected Database with Doc!ParseDoc field by field (TraceDoc.tla)',
                  'Doc.tla gives the parser an operational model (two-phase build) and declarative properties (NothingDropped, '
                  'Linked, OptionNeutral) that TLC checks on every generated document; every (document, surface form) is a '
                  'trace of the real parser validated by TLC against ParseDoc; bounded by the generator pools and seeds',
                  'trusted: TLC, the concretiser pv/surface.py (prints only admissible spellings), the projection pv/project.py',
                  'DESIGN.md 2.3, 2.4, 4.2, 4.3, 5 (C01)')
CLAIMED['C05'] = ('TLC-generated documents parsed by /repo; identity-resolved projection of links, back-pointers, lookups and '
                  'get_refs / SQL key-holder queries compared by TLC with Doc!ParseDoc, GetRefs, ColGetRefs, SqlRefs',
                  'links are positions obtained by object identity (`is`), so a copied column, a reference bound to the wrong '
                  'table or a missing back-pointer is a field mismatch named in the verdict; Linked and OneKeyHolder are checked '
                  'by TLC at design level on every generated document',
                  'trusted: TLC, pv/project.py (identity resolution), pv/surface.py',
                  'DESIGN.md 2.3, 5 (C05)')
CLAIMED['C06'] = ('TLC-generated single-fault documents (GenFault.tla: 14 fault kinds with near-miss variants x position x spelling); design-level '
                  'invariant Ruled; outcome class of the real parser compared by TLC with Doc!ParseDoc',
                  'each fault kind is an operator on documents in the specification; TLC proves on every generated instance that '
                  'the two-phase build model rejects it with the rule\'s error class, and validates the real parser\'s outcome '
                  '(exception class) for every printed form against that model',
                  'trusted: TLC, pv/surface.py, exception class names; messages are ignored',
                  'DESIGN.md 2.3, 5 (C06)')
CLAIMED['C12'] = ('Session!ParseCall(route, bom, doc, opts): 8 entry points + 17 refused source types x BOM x options on TLC-generated '
                  'documents; outcome and renderer classes compared by TLC',
                  'the specification makes the outcome a function of the document and of the options the route accepts (RouteIndependent); '
                  'every route x BOM x option cell is executed for each generated document and validated by TLC',
                  'trusted: TLC, pv/c12.py route driver (UTF-8 files in a temp dir), pv/project.py',
                  'DESIGN.md 2.8, 5 (C12)')
CLAIMED['C14'] = ('TLC-generated documents with declared comments (capture: compared with Doc!ParseDoc) and with extra comments at every '
                  'line gap / line end / marked place inside a line (inertness: compared under Doc!MaskComments); output-side clauses by the renderer checks',
                  'capture rule and masking are operators of Doc.tla; one comment at every gap of small documents exhaustively, several '
                  'at once on larger ones, in 14 shapes/contents',
                  'trusted: TLC, pv/surface.py comment placement, comment text compared line-wise trimmed',
                  'DESIGN.md 2.4, 5 (C14)')
CLAIMED['C15'] = ('TLC-generated documents with/without properties parsed under both option values; TLC compares with '
                  'Doc!ParseDoc(doc, TRUE/FALSE) and requires neutrality (model, .dbml, .sql) for property-free documents',
                  'properties are part of the abstract document; option-off = syntax error iff property syntax is used; '
                  'DesignOptionNeutral checked by TLC on every generated document',
                  'trusted: TLC, pv/surface.py, pv/project.py',
                  'DESIGN.md 5 (C15)')
CLAIMED['C02'] = ('TLC-generated models; design-level RoundTripButRefOrder / FixpointHolds on DbmlOut!RenderDecl composed with Doc!ParseDoc; '
                  'database parsed and API-built, rendered, re-parsed, re-rendered; TLC compares projections clause by clause (TraceDbml.tla) '
                  'with named deviations for the listed known findings',
                  'the renderer is specified as a function from models to documents, so the round trip is the composition of two '
                  'specified machines; TLC checks it on every generated model and validates the real render/parse/render cycle of the '
                  'parsed and the API-built database against it; pinned as-built deviations are named actions with guards',
                  'trusted: TLC, pv/builder.py, pv/project.py, pv/surface.py',
                  'DESIGN.md 2.5, 5 (C02), 7')
CLAIMED['C13'] = ('Lexis.tla (lexer, writer, Norm, renderer escaping over character sequences) model-checked on ALL texts up to a '
                  'length bound over the critical alphabet; every text x 12 sites x 3 styles authored and x 12 sites rendered, executed on '
                  '/repo and validated by TLC (TraceLexis.tla)',
                  'writer/lexer inverse, Norm idempotence and renderer-literal inverse are TLC invariants over the complete text space '
                  '(4 681 texts of length <= 4 quick, 37 449 <= 5 thorough); the same texts are pushed through the real parser and '
                  'renderer at every text-bearing site; the SQL literal clause is decided by the SQL checks',
                  'trusted: TLC, fixed host documents in pv/c13.py; alphabet and length bound limit the universal quantifier',
                  'DESIGN.md 2.7, 4.5, 5 (C13)')
SQLNOTE = 'trusted: TLC, the DDL reader pv/ddl.py (independent of PyDBML, refuses what it cannot read), pv/builder.py, pv/project.py'
CLAIMED['C03'] = ('SqlExec!ExpectedCatalog(model) vs the statements an independent DDL reader reads from db.sql, executed in order on the '
                  'catalog machine of SqlExec.tla (TraceSql.tla); models generated by TLC, databases parsed and API-built',
                  'SQL is treated as a program: every statement must be enabled when it runs (CREATE INDEX / COMMENT ON name the table as '
                  'created) and the final catalog must equal the expected one -- nothing else, everything once',
                  SQLNOTE, 'DESIGN.md 2.6, 5 (C03)')
CLAIMED['C04'] = ('SqlExec!ExpFks / ExpJoinTables vs the FOREIGN KEY clauses and ALTER TABLE statements read back from db.sql; exactly-once '
                  'by counting; TraceSql.tla',
                  'direction, column order on both sides, constraint name, actions, inline-vs-ALTER and the many-to-many join table are '
                  'computed by the specification from the model and compared with what the script states and can execute',
                  SQLNOTE, 'DESIGN.md 2.6, 5 (C04)')
CLAIMED['C18'] = ('enabledness of SqlExec CreateTable (inline FOREIGN KEY targets created earlier) on the statement sequence read back from '
                  'db.sql, for acyclic inline graphs; determinism across interpreters and hash seeds; as-built order predicted exactly by '
                  'SqlExec!AsBuiltOrder (known finding F-C18)',
                  'the property is not a special rule but the enabling condition of a catalog action; the pinned as-built heuristic is a named '
                  'deviation whose predicted order must be matched exactly, so any other misplacement is reported',
                  SQLNOTE, 'DESIGN.md 2.6, 5 (C18), 7')
CLAIMED['C10'] = ('Edits.tla: edit histories chosen by TLC over generated databases and applied to the real objects; projection after '
                  'every edit validated by TLC against ApplyEdit; final .dbml/.sql of the edited database and of every element compared '
                  'with a database freshly built from the final model (TraceEdits.tla)',
                  '18 kinds of in-place edit are transitions of the model whose links are positions; TLC binds the edit semantics step '
                  'by step and requires byte-identical renderings of edited vs fresh objects, with and without rendering before/between '
                  'the edits (caches)',
                  'trusted: TLC, pv/builder.py (fresh build), pv/project.py',
                  'DESIGN.md 5 (C10)')
CLAIMED['C17'] = ('Invalid.tla: every history of edits up to a depth bound that makes a small universe of real objects inconsistent in one way; '
                  'outcome class of 13 render/query calls after every edit validated by TLC against Invalid!Out (TraceInvalid.tla)',
                  'the guards of the failure branches are the specification (Out); all routes to each bad state (constructed, set to None '
                  'later, detached by delete_*, column moved) are enumerated exhaustively by TLC and replayed; the consistent state must '
                  'accept every query',
                  'trusted: TLC, the object universe in pv/c17.py; multi-defect states are observed but not judged',
                  'DESIGN.md 2.8, 5 (C17)')
CLAIMED['C16'] = ('Renderers.tla: seeded sessions of render / detach steps over generated databases x 4 renderer configurations x 3 ways of '
                  'passing them; which class rendered, purity, unchanged model and exactly-once containment validated by TLC (TraceRenderers.tla)',
                  'the handler rule (configured class for attached elements and columns, empty string for unhandled types, default for '
                  'detached ones) and purity are specification operators evaluated by TLC on every step of every observed session',
                  'trusted: TLC, the partial custom renderers defined in pv/c16.py (mirrored by Renderers!CustomHandles)',
                  'DESIGN.md 2.8, 5 (C16)')
CLAIMED['C07'] = ('Malformed.tla: 24 fault kinds applied at every line of TLC-generated documents (canonical print, lines labelled with kind, '
                  'enclosing block and features); outcome of the parse call validated by TLC for every pair ProvablyInvalid lists',
                  'the table of provably invalid (fault, site) pairs and the single allowed outcome are the specification; every fault is '
                  'applied at every structural position of every document; a returned database is reported as a leak with the text',
                  'trusted: TLC, line labelling and fault application in pv/c07.py; only the listed fault kinds are covered (no DBML '
                  'recogniser in the specification)',
                  'DESIGN.md 4.4, 5 (C07)')
CLAIMED['C08'] = ('Soups.tla outcome automaton; TLC enumerates all token soups up to a bound over a 50-lexeme alphabet; plus mutations of '
                  'generated documents, every short raw string in each quote style at free-text positions, awkward quoted identifiers in '
                  'every identifier position, degenerate inputs; each parse-and-render-everything session validated by TLC (TraceSession.tla)',
                  'bounded exhaustive + sampled: the specification contributes the alphabet and the automaton of allowed outcomes (it cannot '
                  'predict accept/reject of a soup); this is the weakest use of the technique in the list and the evidence says so',
                  'trusted: TLC, the stimulus builders in pv/c08.py, a 10 s watchdog per case for non-termination',
                  'DESIGN.md 5 (C08), 9')
CLAIMED['C11'] = ('Concurrent.tla model-checked for all interleavings of parses over the shared grammar (mutant refuted by TLC on every run); '
                  'every maximal schedule replayed on real parser threads under a deterministic scheduler, plus free-running threads and '
                  'sequential histories with failed parses and edited results; validated by TLC (TraceConcurrent.tla)',
                  'GrammarUntouched / ResultIsOwnDocument / NoSharing are invariants of the interleaving model; conformance records the grammar '
                  'fingerprint after every step, compares every result with Doc!ParseDoc, checks identity-disjointness of results and '
                  'reclamation by weak references',
                  'trusted: TLC, the scheduler and the yield points installed by pv/c11.py (run-time wrapping of _set_syntax, parse_blueprint, '
                  'Database.add); finer-grained races are only sampled',
                  'DESIGN.md 2.9, 5 (C11)')
NOT_YET = {}

def main():
    props = [json.loads(l) for l in open(os.path.join(V, 'properties.jsonl'))]
    checks = []
    na = []
    for p in props:
        pid = p['id']
        if pid in CLAIMED:
            tech, text, note, ref = CLAIMED[pid]
            checks.append({
                'property_id': pid,
                'quick_cmd': './check %s --tier quick' % pid,
                'thorough_cmd': './check %s --tier thorough' % pid,
                'evidence_file': 'evidence/%s.json' % pid,
                'replay_cmd_template': './check %s --replay {path}' % pid,
                'engine': 'tlc-conformance',
                'level_claimed': {'category': 'model_checking', 'text': text, 'design_ref': ref},
                'level_note': note,
                'technique': tech,
            })
        else:
            na.append({'property_id': pid, 'reason': NOT_YET.get(pid, 'TLA+ module and conformance check for this property are not built yet at this commit (planned, see DESIGN.md section 5); nothing is claimed until the check exists')})
    m = {
        'version': 1,
        'setup_cmd': './setup.sh',
        'hooks': {
            'guard': 'PYDBML_VERIF',
            'enable': 'environment variable PYDBML_VERIF=1 (set by ./check); pure-Python library, nothing to rebuild: checks import /repo\'s working tree directly',
            'baseline_off_cmd': 'cd /repo && env -u PYDBML_VERIF /venv/bin/python -m pytest -ra -q -p no:cacheprovider --timeout=900 --continue-on-collection-errors',
            'source_commits': HOOK_COMMITS,
            'add_only': True,
        },
        'engines': [{'name': 'tlc-conformance', 'path': 'pv/', 'serves_properties': sorted(CLAIMED),
                     'kind_free_text': 'explicit TLA+ specification (spec/*.tla) model-checked by TLC; TLC-generated stimuli executed on /repo; recorded traces validated by TLC against the same specification'}],
        'checks': checks,
        'not_applicable': na,
        'notes': 'All verdicts are TLC\'s: Python only concretises stimuli, calls the library and projects objects to JSON. Exit 2 = machinery failure (never a property verdict).',
    }
    with open(os.path.join(V, 'MANIFEST.json'), 'w') as f:
        json.dump(m, f, indent=1)
        f.write('\n')

HOOK_COMMITS = []
if __name__ == '__main__':
    main()
