import json,glob,sys,collections
sys.path[:0]=['/verif','/repo']
from pydbml import PyDBML
import pyparsing
seen=collections.Counter()
for f in sorted(glob.glob('/verif/replays/%s/*.json' % (sys.argv[1] if len(sys.argv)>1 else 'C02'))):
    v=json.load(open(f))
    t=v['detail'].get('rendered')
    cl=v['detail']['failing_clause']
    if not t: print(f, cl[:200]); continue
    try:
        PyDBML(t, allow_properties=v['stimulus']['model']['allowprops'])
        key=cl[:120]
        if seen[key]==0: print('---',f,'\n   ',cl[:300])
        seen[key]+=1
    except pyparsing.ParseBaseException as ex:
        lines=t.split('\n')
        ln=lines[ex.lineno-1] if ex.lineno-1 < len(lines) else ''
        key=ln.strip()[:60]
        if seen[key]==0: print('--- parse error',f,'\n    line %d col %d: %r' % (ex.lineno, ex.col, ln[:200]))
        seen[key]+=1
    except Exception as ex:
        print('--- other',type(ex).__name__,ex,f)
print(len(seen))
