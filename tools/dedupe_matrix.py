#!/usr/bin/env python3
"""Keep the LAST row per seed in seeded/MATRIX.md (tools/seed_matrix.sh appends), header first, seeds in natural order."""
import re, sys
p = sys.argv[1] if len(sys.argv) > 1 else 'seeded/MATRIX.md'
rows = {}
for ln in open(p):
    m = re.match(r'\| (C\d\d[a-z]?) \|', ln)
    if m:
        rows[m.group(1)] = ln
key = lambda s: (s[3:] or ' ', s[:3])
with open(p, 'w') as f:
    f.write('| seed | property | check run | exit | first VIOLATION clause |\n|---|---|---|---|---|\n')
    for s in sorted(rows, key=key):
        f.write(rows[s])
print(len(rows), 'seeds;', sum(1 for r in rows.values() if re.search(r'\| 1 \|', r)), 'detected (exit 1)')
