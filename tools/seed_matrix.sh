#!/bin/bash
# seed_matrix.sh : run every seeded change against the check of its property, in a scratch worktree of /repo
# (so that /repo itself is never touched) and from a SNAPSHOT of /verif's working tree (so that work on /verif can go
# on meanwhile), and append to seeded/MATRIX.md.  Usage: tools/seed_matrix.sh [seed names...]
cd /verif || exit 2
W=$(mktemp -d /tmp/matrix_XXXX)
git -C /repo worktree add --detach "$W/repo" HEAD >/dev/null 2>&1 || exit 2
trap 'git -C /repo worktree remove --force "$W/repo"; rm -rf "$W"' EXIT
rsync -a --exclude .git --exclude replays --exclude evidence /verif/ "$W/verif/"
seeds="$*"; [ -z "$seeds" ] && seeds=$(ls seeded | grep -v MATRIX)
out=/verif/seeded/MATRIX.md
[ -z "$*" ] && echo "| seed | property | check run | exit | first VIOLATION clause |" > $out && echo "|---|---|---|---|---|" >> $out
cd "$W/verif" || exit 2
for s in $seeds; do
  prop=$(python3 -c "import json;print(json.load(open('seeded/$s/meta.json'))['property'])")
  python3 -c "import json,sys;sys.exit(0 if json.load(open('seeded/$s/meta.json')).get('superseded') else 1)" && { echo "| $s | $prop | superseded by a fix: commit (see meta.json) | - | - |" | tee -a $out; continue; }
  git -C "$W/repo" checkout -q -- . && git -C "$W/repo" apply "$W/verif/seeded/$s/patch.diff" || { echo "| $s | $prop | patch does not apply | - | - |" | tee -a $out; continue; }
  VERIF_REPO="$W/repo" VERIF_OUT="$W/out" ./check $prop > "$W/$s.out" 2>&1; rc=$?
  first=$(grep -m1 '^VIOLATION' "$W/$s.out" | sed 's/.*replay=//')
  clause=""
  [ -n "$first" ] && clause=$(python3 -c "import json,sys;print(json.load(open('$first'))['detail']['failing_clause'][:110].replace('|','/').replace(chr(10),' '))" 2>/dev/null)
  echo "| $s | $prop | ./check $prop | $rc | $clause |" | tee -a $out
done
