#!/bin/bash
# try_seed.sh <seed> <check> [args] : apply a seeded change in a scratch worktree of /repo (never to /repo itself: other
# runs may be reading it), run one check of the CURRENT /verif working tree against it, remove the worktree.
s="$1"; c="$2"; shift 2
W=$(mktemp -d /tmp/try_XXXX)
git -C /repo worktree add --detach "$W/repo" HEAD >/dev/null 2>&1 || exit 2
trap 'git -C /repo worktree remove --force "$W/repo"; rm -rf "$W"' EXIT
git -C "$W/repo" apply /verif/seeded/$s/patch.diff || { echo "patch does not apply"; exit 2; }
cd /verif && VERIF_REPO="$W/repo" VERIF_OUT="$W/out" ./check $c "$@" 2>&1 | grep -v '^KNOWN-FINDING' | tail -4
rc=${PIPESTATUS[0]}
first=$(ls "$W/out/replays/$c/"*.json 2>/dev/null | head -1)
[ -n "$first" ] && python3 -c "import json;print('first clause:', str(json.load(open('$first'))['detail'].get('failing_clause'))[:160])"
echo "seed=$s check=$c exit=$rc"
