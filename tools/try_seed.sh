#!/bin/bash
# try_seed.sh <seed name> <check id> [check args...] : apply a seeded change to /repo, run the check, undo.
name="$1"; shift
cd /repo && git apply /verif/seeded/$name/patch.diff || exit 2
trap 'git -C /repo checkout -- . ' EXIT
cd /verif && ./check "$@" > /tmp/try_$name.out 2>&1; rc=$?
grep -E '^(VIOLATION|KNOWN-FINDING|MACHINERY|C[0-9]+ )' /tmp/try_$name.out | head -${LINES_MAX:-6}
echo "seed=$name check=$* exit=$rc"
