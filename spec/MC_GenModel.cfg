CONSTANTS
  SeedLo = 1
  SeedHi = 200
  WithProps = TRUE
  WithComments = FALSE
INIT Init
NEXT Next
INVARIANT DesignRoundTrip
INVARIANT DesignFixpoint
INVARIANT EmitModel
CHECK_DEADLOCK FALSE
