------------------------- MODULE MC_C09_members -------------------------
(* Universe "members" (DESIGN 4.6): table-level operations.  Tables 1 and 2 carry the same full
   name and equal columns (so a column of one is an equal twin of a column of the other), table 3
   -- the same BARE name in another schema: its column is a near miss of theirs, equal in everything but the owner's
   schema -- owns the "foreign" column; free columns and indexes (one over the foreign column, two equal
   ones, one with an expression subject) are added and deleted by object and by position. *)
EXTENDS Container, Json, SequencesExt

TableDefs == <<
  [id |-> 1, name |-> "n1", schema |-> "public", alias |-> "", sig |-> "A", cols |-> <<11, 12>>, idxs |-> <<>>],
  [id |-> 2, name |-> "n1", schema |-> "public", alias |-> "", sig |-> "A", cols |-> <<21>>, idxs |-> <<>>],
  [id |-> 3, name |-> "n1", schema |-> "s2", alias |-> "", sig |-> "B", cols |-> <<31>>, idxs |-> <<>>] >>
ColDefs == <<
  [id |-> 11, name |-> "id", type |-> "int"], [id |-> 12, name |-> "v", type |-> "text"],
  [id |-> 13, name |-> "v", type |-> "text"], [id |-> 21, name |-> "id", type |-> "int"],
  [id |-> 31, name |-> "id", type |-> "int"] >>
IdxDefs == <<
  [id |-> 101, subj |-> <<11>>, sig |-> ""], [id |-> 102, subj |-> <<11>>, sig |-> ""],
  [id |-> 103, subj |-> <<31>>, sig |-> "f"], [id |-> 104, subj |-> <<12, 0>>, sig |-> "x"],
  [id |-> 105, subj |-> <<0, 31>>, sig |-> "y"] >>
RefDefs == <<>>
EnumDefs == <<>>
GroupDefs == <<>>
StickyDefs == <<>>
ProjectDefs == <<>>
JunkDefs == <<
  [id |-> 91, what |-> "str"] >>
Ids(defs) == {defs[i].id : i \in DOMAIN defs}
Def(defs, x) == CHOOSE d \in Range(defs) : d.id = x

MC_Tables == Ids(TableDefs)
MC_Cols == Ids(ColDefs)
MC_Idxs == Ids(IdxDefs)
MC_Refs == Ids(RefDefs)
MC_Enums == Ids(EnumDefs)
MC_Groups == Ids(GroupDefs)
MC_Stickies == Ids(StickyDefs)
MC_Projects == Ids(ProjectDefs)
MC_Junk == Ids(JunkDefs)
MC_TableInit == [t \in MC_Tables |-> Def(TableDefs, t)]
MC_ColSig == [c \in MC_Cols |-> Def(ColDefs, c).name \o ":" \o Def(ColDefs, c).type]
MC_ColName == [c \in MC_Cols |-> Def(ColDefs, c).name]
MC_IdxSig == [i \in MC_Idxs |-> Def(IdxDefs, i).sig]
MC_IdxSubj == [i \in MC_Idxs |-> Def(IdxDefs, i).subj]
MC_RefSig == [r \in MC_Refs |-> Def(RefDefs, r).type \o "/" \o Def(RefDefs, r).sig]
MC_RefC1 == [r \in MC_Refs |-> Def(RefDefs, r).c1]
MC_RefC2 == [r \in MC_Refs |-> Def(RefDefs, r).c2]
MC_EnumName == [e \in MC_Enums |-> <<Def(EnumDefs, e).schema, Def(EnumDefs, e).name>>]
MC_GroupName == [g \in MC_Groups |-> Def(GroupDefs, g).name]
MC_RenameNames == {"n1"}
MC_RenameSchemas == {"public"}
MC_RenameAliases == {""}

Call(op, o, t, k, f, v) == [op |-> op, o |-> o, t |-> t, k |-> k, f |-> f, v |-> v]
OpSet ==
  {Call(op, o, t, 0, "", "") : op \in {"add_column", "delete_column"}, o \in MC_Cols \cup MC_Junk, t \in {1, 2}}
  \cup {Call(op, o, 1, 0, "", "") : op \in {"add_index", "delete_index"}, o \in MC_Idxs \cup MC_Junk}
  \cup {Call(op, 0, 1, k, "", "") : op \in {"delete_column_pos", "delete_index_pos"}, k \in 1..3}
MC_Ops == SetToSeq(OpSet)
MC_Deviations == {}
KeyPool == {sc \o "." \o n : sc \in MC_RenameSchemas, n \in MC_RenameNames} \cup (MC_RenameAliases \ {""})

Universe == [tables |-> TableDefs, cols |-> ColDefs, idxs |-> IdxDefs, refs |-> RefDefs,
             enums |-> EnumDefs, groups |-> GroupDefs, stickies |-> StickyDefs,
             projects |-> ProjectDefs, junk |-> JunkDefs, ops |-> MC_Ops, keypool |-> KeyPool,
             colnames |-> {ColDefs[i].name : i \in DOMAIN ColDefs}]

ASSUME PrintT(<<"UNIVERSE", ToJson(Universe)>>)
=============================================================================
