----------------------------- MODULE Renderers -----------------------------
(***************************************************************************)
(* C16: which renderer produces a rendering, and that rendering is pure.   *)
(*                                                                         *)
(* A session is a sequence of steps over a database with configured        *)
(* renderer classes: render an element or the database to SQL or DBML, or  *)
(* detach an element (Database.delete), or hand an element to            *)
(* Database.add once more ("readd": refused for a member -- the project   *)
(* replaces itself -- and attaching again what was detached).  A          *)
(* harness-defined PARTIAL custom                                          *)
(* renderer handles only some element types and tags its output.          *)
(*   attached element (and every column of an attached table): the         *)
(*       configured class renders it; a type the class has no handler for  *)
(*       renders as the empty string                                       *)
(*   detached element: the default renderer                                *)
(*   rendering never changes the model, and the same (element, output)     *)
(*       renders to the same text as long as the model does not change     *)
(***************************************************************************)
EXTENDS GenDoc

\* types the partial custom renderer has a handler for (fixed by the harness, mirrored here)
CustomHandles == {"table", "enum", "db"}
\* Database.delete supports tables, references, enums, table groups and the project
Detachable == {"enum", "group", "project", "ref"}

\* elements of a model: [k, i]
ElemsOf(m) ==
  <<[k |-> "db", i |-> 0]>>
  \o [t \in DOMAIN m.tables |-> [k |-> "table", i |-> t]]
  \o [t \in DOMAIN m.tables |-> [k |-> "column", i |-> t]]       \* first column of table t
  \o [e \in DOMAIN m.enums |-> [k |-> "enum", i |-> e]]
  \o [r \in DOMAIN m.refs |-> [k |-> "ref", i |-> r]]
  \o [g \in DOMAIN m.groups |-> [k |-> "group", i |-> g]]
  \o [n \in DOMAIN m.notes |-> [k |-> "sticky", i |-> n]]
  \o (IF m.project.present THEN <<[k |-> "project", i |-> 0]>> ELSE <<>>)

\* a session of n steps chosen by seed: mostly renders, sometimes a detach of a detachable element
StepOf(sd, j, m) ==
  LET el == Pick(sd, K(60 + j, 0, 1), ElemsOf(m)) IN
  IF el.k \in Detachable /\ Coin(sd, K(60 + j, 0, 2), 15) THEN [op |-> "detach", el |-> el, out |-> ""]
  ELSE IF el.k \in Detachable /\ Coin(sd, K(60 + j, 0, 4), IF el.k = "project" THEN 45 ELSE 12) THEN [op |-> "readd", el |-> el, out |-> ""]
  \* an equal COPY of an enum is handed to Database.add (refused while the enum is a member; otherwise taken out again at
  \* once) and rendered: it is no member, so the default classes render it, and nothing else changes
  ELSE IF el.k = "enum" /\ Coin(sd, K(60 + j, 0, 5), 25) THEN [op |-> "addcopy", el |-> el, out |-> Pick(sd, K(60 + j, 0, 3), <<"sql", "dbml">>)]
  \* table groups, the project and sticky notes exist in DBML only (they have no .sql)
  ELSE [op |-> "render", el |-> el,
        out |-> IF el.k \in {"group", "project", "sticky"} THEN "dbml" ELSE Pick(sd, K(60 + j, 0, 3), <<"sql", "dbml">>)]
SessionOf(sd, m) == [j \in 1..Num(sd, 59, 2, 9) |-> StepOf(sd, j, m)]

TheModel16 == ParseDoc(TheDoc, WithProps)
EmitSession == WellFormed(TheDoc) =>
  PrintT(<<"DOC", seed, ToJson([doc |-> TheDoc, model |-> TheModel16, sess |-> SessionOf(seed, TheModel16)])>>)

\* detached elements after the first n steps: the last detach / readd of an element decides (Database.add of a member is
\* refused or, for the project, replaces it by itself: the element stays attached and nothing else changes)
DetachedAfter(sess, n) ==
  {el \in {sess[j].el : j \in 1..n} :
     LET js == {x \in 1..n : sess[x].el = el /\ sess[x].op \in {"detach", "readd"}} IN
     js # {} /\ sess[CHOOSE x \in js : \A y \in js : y <= x].op = "detach"}

\* cfg = [sql |-> "default"/"custom", dbml |-> ...]
ExpectedClass(cfg, sess, j) ==
  LET s == sess[j]
      attached == s.el \notin DetachedAfter(sess, j - 1)
      cls == IF attached /\ s.op # "addcopy" THEN cfg[s.out] ELSE "default"
  IN IF cls = "default" THEN "default" ELSE IF s.el.k \in CustomHandles THEN "custom" ELSE "empty"

\* steps j1 < j2 render the same (element, output) with no detach in between: same text
SameTextDue(sess, j1, j2) ==
  /\ j1 < j2 /\ sess[j1].op = "render" /\ sess[j2].op = "render"
  /\ sess[j1].el = sess[j2].el /\ sess[j1].out = sess[j2].out
  /\ \A x \in j1..j2 : sess[x].op = "render"
=============================================================================
