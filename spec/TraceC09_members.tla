---- MODULE TraceC09_members ----
EXTENDS MC_C09_members, TraceContainer
====
