------------------------------ MODULE GenDoc ------------------------------
(***************************************************************************)
(* Generators of abstract DBML documents (the stimuli of C01, C05, C06,    *)
(* C11, C12, C14, C15 and, through the parser, of the renderer checks).    *)
(*                                                                         *)
(* Two families, both pure functions evaluated by TLC:                     *)
(*   RandDoc(seed)  whole documents; every choice is taken from a pool by  *)
(*                  a small deterministic hash of (seed, choice point), so *)
(*                  a document is a function of its seed, TLC explores the *)
(*                  seeds in parallel, and a replay needs only the seed.   *)
(*   *Product       exhaustive per-element feature products, each wrapped  *)
(*                  into a minimal host document.                          *)
(* Non-ASCII characters are written ~uXXXX~ (the harness decodes them):    *)
(* TLC's JSON reader is not trusted with anything but ASCII.               *)
(***************************************************************************)
EXTENDS Doc, Json

\* The hash must make the choices at different keys INDEPENDENT over any window of seeds: a linear congruential mix does
\* not (it was measured: over 600 consecutive seeds only 58 of the 110 combinations of an edit kind with its argument
\* occurred -- whole combinations were never generated).  Three rounds of a quadratic map modulo a prime below sqrt(2^31)
\* (TLC integers are 32-bit) fill the joint cells like a random function does (110 of 110, 381 of the ~379 expected of 600).
P == 46337
Sq(x) == (x * x + 12345) % P
H(seed, key) == Sq((Sq((Sq(seed % P) + key) % P) * 31 + (key \div 7) + (seed \div P)) % P)
Pick(seed, key, pool) == pool[(H(seed, key) % Len(pool)) + 1]
Num(seed, key, lo, hi) == lo + (H(seed, key) % (hi - lo + 1))
Coin(seed, key, pct) == (H(seed, key) % 100) < pct
K(a, b, c) == a * 2000 + b * 40 + c

(***************************************************************************)
(* Pools                                                                   *)
(***************************************************************************)
\* (names that merely START with a keyword -- notes, indexes_count, tables -- are ordinary bare identifiers)
TableNames == <<"users", "Users", "orders", "order items", "table", "~u00dc~n~u00ef~", "Products", "t_1", "note", "ref", "notes", "tables", "123", "a  b", "t[1]", "products">>
SchemaPool == <<"", "", "", "s1", "my schema", "public", "s1", "pub">>      \* ("pub": a piece of "public" is another schema)
AliasPool  == <<"u", "O", "oi", "my alias", "a5", "P", "t1a", "n8", "r9", "al.ias">>      \* (an alias may contain a dot: it is one name)
ColNames   == <<"id", "ID", "name", "user id", "note", "Note", "type", "~u540d~~u524d~", "Ref", "c_2", "default", "pk", "notes", "indexes_count", "ref_id", "1st", "0", "tags[]", "a^b", "`code`", "Id">>
EnumNames  == <<"status", "Status", "order status", "enum", "~u00e9~tat", "e^2">>
EnumItems  == <<"new", "in progress", "done", "~u2713~ ok", "null", "x-1", "notes", "0", "New">>
PlainTypes == << [schema |-> "", name |-> "int", suffix |-> ""],
                 [schema |-> "", name |-> "varchar", suffix |-> "(255)"],
                 [schema |-> "", name |-> "decimal", suffix |-> "(10, 2)"],
                 [schema |-> "", name |-> "text", suffix |-> "[]"],
                 [schema |-> "", name |-> "character varying", suffix |-> ""],
                 [schema |-> "s1", name |-> "money", suffix |-> ""],
                 [schema |-> "", name |-> "timestamp", suffix |-> ""],
                 [schema |-> "", name |-> "INTEGER", suffix |-> ""] >>
Texts      == <<"a note", "it's", "say \"hi\"", "caf~u00e9~ ~u4e2d~", "x: y, [z] {w} (v)", "// not a comment",
                "#tag /* x */", "back`tick", "back\\slash", "line1\nline2", "first\n  indented\nlast", "Table t { id int }",
                "100%", "a\n\nb", "'''", "nb~u00a0~sp ~u2603~", "two\n\n\nempty lines", "blank-only\n  \nline inside", "see Note { and Table t { inside">>
OneLiners  == <<"a note", "it's", "say \"hi\"", "caf~u00e9~", "x: y, [z] {w}", "// no", "back\\slash", "#1", "'''", "">>
Defaults   == << [k |-> "none", v |-> ""], [k |-> "none", v |-> ""], [k |-> "int", v |-> "0"], [k |-> "int", v |-> "42"],
                 [k |-> "float", v |-> "1.5"], [k |-> "float", v |-> "0.0"], [k |-> "bool", v |-> "true"],
                 [k |-> "bool", v |-> "false"], [k |-> "null", v |-> ""], [k |-> "str", v |-> "hello"],
                 [k |-> "str", v |-> "it's"], [k |-> "str", v |-> ""], [k |-> "expr", v |-> "now()"],
                 [k |-> "expr", v |-> "a + 'b'"],
                 \* a quoted default keeps its kind whatever it spells; an expression may itself begin and end with a parenthesis
                 [k |-> "str", v |-> "12"], [k |-> "str", v |-> "00501"], [k |-> "str", v |-> "1.50"],
                 [k |-> "str", v |-> "true"], [k |-> "str", v |-> "False"], [k |-> "int", v |-> "12345678901234567890"],
                 [k |-> "expr", v |-> "(a) * (b)"], [k |-> "expr", v |-> "(now())"],
                 \* backslash + letter inside an expression or a string: two characters, whatever the letter
                 [k |-> "expr", v |-> "E'\\t' || '\\n'"], [k |-> "str", v |-> "C:\\new\\table"] >>
Colors     == <<"", "", "#abc", "#A1B2C3", "#fff000">>
PropKeys   == <<"owner", "pii", "k_3", "my key", "notes_key", "k[1]", "dir\\new", "fmt\\tspec">>      \* (backslash + n / t inside a quoted key: two characters)
RefKinds   == <<">", "<", "-", "<>">>
Actions    == <<"", "", "", "cascade", "no action", "restrict", "set null", "set default">>
IdxTypes   == <<"", "", "btree", "hash", "gin", "gist", "brin", "spgist">>
IdxNames   == <<"", "", "idx_1", "my index", "it's", "ix[0]", "ix\\new">>
Exprs      == <<"lower(name)", "id * 2", "now()", "(a) || (b)", "(lower(name))", "replace(body, '\\r\\n', ' ')">>
GroupNames == <<"g1", "my group", "TableGroup", "assets_g", "notes_g", "as">>      \* (names that START with a keyword of the grammar: as, note)
StickyNames == <<"n1", "reminder_2", "v^2">>
ProjNames  == <<"proj", "my project", "Project">>
ProjKeys   == <<"database_type", "notes", "db[0]">>

\* equal twins: in one document out of seven every note that is present carries the SAME text, and notes are frequent
\* (objects that are equal by value but must stay distinct by identity: shared caches, interned values)
Twins(seed) == Coin(seed, 16, 14)
Maybe(seed, key, pct, pool) ==
  IF pool = Texts /\ Twins(seed) THEN (IF Coin(seed, key, 75) THEN Pick(seed, 17, Texts) ELSE "")
  ELSE IF Coin(seed, key, pct) THEN Pick(seed, key + 1, pool) ELSE ""

(***************************************************************************)
(* Whole documents                                                         *)
(***************************************************************************)
NEnums(seed)  == Num(seed, 1, 0, 2)
NTables(seed) == Num(seed, 2, 1, 4)
NCols(seed, t) == Num(seed, K(t, 0, 1), 1, 4)
Off(seed, key, n) == H(seed, key) % n          \* rotation of a pool: distinct picks by index

\* near misses: a table may reuse the NAME of its predecessor in another schema, and an alias may
\* equal the name of a table that lives in a non-public schema (both are unambiguous DBML)
BName(seed, t)   == TableNames[((Off(seed, 3, Len(TableNames)) + t) % Len(TableNames)) + 1]
\* a further near miss: the last table may carry, in a schema of its own, the very name the JOIN TABLE of a many-to-many reference
\* between the first two tables gets ("users_orders"); nothing collides -- the join table lives in the left table's schema
JoinNamesake(seed) == NTables(seed) >= 3 /\ Coin(seed, 91, 12)
TSchema(seed, t) == IF JoinNamesake(seed) /\ t = NTables(seed) THEN "jn" ELSE Pick(seed, K(t, 0, 2), SchemaPool)
TName0(seed, t)  == IF t > 1 /\ Coin(seed, K(t, 0, 9), 25) /\ SchemaOf(TSchema(seed, t)) # SchemaOf(TSchema(seed, t - 1))
                    THEN BName(seed, t - 1) ELSE BName(seed, t)
TName(seed, t)   == IF JoinNamesake(seed) /\ t = NTables(seed) THEN TName0(seed, 1) \o "_" \o TName0(seed, 2) ELSE TName0(seed, t)
TAlias(seed, t)  == IF Coin(seed, K(t, 0, 3), 40)
                    THEN IF Coin(seed, K(t, 0, 12), 12) /\ SchemaOf(TSchema(seed, t)) # "public" THEN TName(seed, t)
                    ELSE IF Coin(seed, K(t, 0, 11), 15)
                         THEN BName(seed, (t % NTables(seed)) + 1)
                         ELSE AliasPool[((Off(seed, 4, Len(AliasPool)) + t) % Len(AliasPool)) + 1]
                    ELSE ""
CName(seed, t, c) == ColNames[((Off(seed, K(t, 0, 4), Len(ColNames)) + c) % Len(ColNames)) + 1]
ESchema(seed, e) == Pick(seed, K(20 + e, 0, 1), <<"", "", "s1">>)
EBase(seed, e)   == EnumNames[((Off(seed, 5, Len(EnumNames)) + e) % Len(EnumNames)) + 1]
EName(seed, e)   == IF e > 1 /\ Coin(seed, K(20 + e, 0, 5), 35) /\ SchemaOf(ESchema(seed, e)) # SchemaOf(ESchema(seed, e - 1))
                    THEN EBase(seed, e - 1) ELSE EBase(seed, e)

\* how a table is addressed in a reference or a group: qualified, bare (public only) or alias
Addr(seed, key, t) ==
  LET mode == H(seed, key) % 3 IN
  IF mode = 0 /\ TAlias(seed, t) # "" THEN [schema |-> "", table |-> TAlias(seed, t)]
  ELSE IF mode = 1 /\ SchemaOf(TSchema(seed, t)) = "public" THEN [schema |-> "", table |-> TName(seed, t)]
  ELSE [schema |-> SchemaOf(TSchema(seed, t)), table |-> TName(seed, t)]

ColAddr(seed, key, t, cs) ==
  LET a == Addr(seed, key, t) IN
  [schema |-> a.schema, table |-> a.table, cols |-> [i \in DOMAIN cs |-> CName(seed, t, cs[i])]]

RandType(seed, t, c) ==
  IF NEnums(seed) > 0 /\ Coin(seed, K(t, c, 1), 30)
  THEN LET e == Num(seed, K(t, c, 2), 1, NEnums(seed)) IN
       \* mostly the enum as declared; sometimes its name under another schema (a near miss that
       \* must stay a plain type unless another enum carries that very name)
       [schema |-> IF Coin(seed, K(t, c, 13), 25) THEN Pick(seed, K(t, c, 14), <<"", "s1", "public", "other">>)
                   ELSE IF ESchema(seed, e) = "" /\ Coin(seed, K(t, c, 3), 30) THEN "public" ELSE ESchema(seed, e),
        name |-> EName(seed, e), suffix |-> ""]
  ELSE Pick(seed, K(t, c, 4), PlainTypes)

PropValues == Texts \o <<"  padded", " x ", "">>       \* values are kept exactly (notes are normalised: separate pool)
RandProps(seed, key) ==
  LET n == IF Coin(seed, key, 25) THEN Num(seed, key + 1, 1, 2) ELSE 0 IN
  [i \in 1..n |-> <<PropKeys[((Off(seed, key + 2, Len(PropKeys)) + i) % Len(PropKeys)) + 1], Pick(seed, key + 2 + i, PropValues)>>]

RandCol(seed, t, c, withProps) ==
  LET nr == IF Coin(seed, K(t, c, 5), 30) THEN Num(seed, K(t, c, 6), 1, 2) ELSE 0 IN
  [name |-> CName(seed, t, c), type |-> RandType(seed, t, c),
   pk |-> Coin(seed, K(t, c, 7), 25), unique |-> Coin(seed, K(t, c, 8), 25),
   notnull |-> Coin(seed, K(t, c, 9), 30), autoinc |-> Coin(seed, K(t, c, 10), 20),
   default |-> Pick(seed, K(t, c, 11), Defaults),
   note |-> Maybe(seed, K(t, c, 12), 30, Texts),
   props |-> IF withProps THEN RandProps(seed, K(t, c, 20)) ELSE <<>>,
   comment |-> "",
   refs |-> [j \in 1..nr |->
              LET tt == Num(seed, K(t, c, 25 + j), 1, NTables(seed)) IN
              [type |-> Pick(seed, K(t, c, 28 + j), RefKinds),
               addr |-> ColAddr(seed, K(t, c, 31 + j), tt, <<Num(seed, K(t, c, 34 + j), 1, NCols(seed, tt))>>)]]]

RandIdx(seed, t, x) ==
  LET ns == Num(seed, K(t, 10 + x, 1), 1, 2) IN
  [subj |-> [y \in 1..ns |-> IF Coin(seed, K(t, 10 + x, 1 + y), 25)
                            THEN [k |-> "expr", v |-> Pick(seed, K(t, 10 + x, 4 + y), Exprs)]
                            ELSE [k |-> "col", v |-> CName(seed, t, Num(seed, K(t, 10 + x, 7 + y), 1, NCols(seed, t)))]],
   name |-> Pick(seed, K(t, 10 + x, 10), IdxNames), unique |-> Coin(seed, K(t, 10 + x, 11), 30),
   pk |-> Coin(seed, K(t, 10 + x, 12), 20), type |-> Pick(seed, K(t, 10 + x, 13), IdxTypes),
   note |-> Maybe(seed, K(t, 10 + x, 14), 25, Texts), comment |-> ""]

RandTable(seed, t, withProps) ==
  LET ni == IF Coin(seed, K(t, 0, 5), 40) THEN Num(seed, K(t, 0, 6), 1, 3) ELSE 0 IN      \* (3: an index can stand BETWEEN two others)
  [d |-> "table", schema |-> TSchema(seed, t), name |-> TName(seed, t), alias |-> TAlias(seed, t),
   color |-> Pick(seed, K(t, 0, 7), Colors), note |-> Maybe(seed, K(t, 0, 8), 35, Texts),
   props |-> IF withProps THEN RandProps(seed, K(t, 0, 10)) ELSE <<>>, comment |-> "",
   cols |-> [c \in 1..NCols(seed, t) |-> RandCol(seed, t, c, withProps)],
   \* (equal twins: an index may repeat its predecessor verbatim -- two declarations, two indexes)
   idxs |-> [x \in 1..ni |-> IF x > 1 /\ Coin(seed, K(t, 10 + x, 15), 15) THEN RandIdx(seed, t, x - 1) ELSE RandIdx(seed, t, x)]]

RandEnum(seed, e) ==
  [d |-> "enum", schema |-> ESchema(seed, e), name |-> EName(seed, e),
   items |-> [i \in 1..Num(seed, K(20 + e, 0, 2), 1, 3) |->
               [name |-> EnumItems[((Off(seed, K(20 + e, 0, 3), Len(EnumItems)) + i) % Len(EnumItems)) + 1],
                note |-> Maybe(seed, K(20 + e, i, 4), 30, Texts), comment |-> ""]],
   comment |-> ""]

RandRef0(seed, r) ==
  LET ns == JoinNamesake(seed) /\ r = 1          \* the reference whose join table has a namesake
      t1 == IF ns THEN 1 ELSE Num(seed, K(25 + r, 0, 1), 1, NTables(seed))
      t2 == IF ns THEN 2 ELSE Num(seed, K(25 + r, 0, 2), 1, NTables(seed))
      two == Coin(seed, K(25 + r, 0, 3), 25) /\ NCols(seed, t1) >= 2 /\ NCols(seed, t2) >= 2
      c1 == Num(seed, K(25 + r, 0, 4), 1, NCols(seed, t1))
      c2 == Num(seed, K(25 + r, 0, 5), 1, NCols(seed, t2))
  IN [d |-> "ref", name |-> Maybe(seed, K(25 + r, 0, 6), 35, <<"fk_1", "my fk", "Ref", "fk^2", "fk{1}", "{x}">>),
      left |-> ColAddr(seed, K(25 + r, 0, 8), t1, IF two THEN <<1, 2>> ELSE <<c1>>),
      type |-> IF ns THEN "<>" ELSE Pick(seed, K(25 + r, 0, 9), RefKinds),
      right |-> ColAddr(seed, K(25 + r, 0, 10), t2, IF two THEN <<2, 1>> ELSE <<c2>>),
      onupdate |-> Pick(seed, K(25 + r, 0, 11), Actions), ondelete |-> Pick(seed, K(25 + r, 0, 12), Actions),
      comment |-> ""]

\* mirror twins: a reference may be the previous one seen from the other side (sides swapped, kind flipped) or the same
\* columns under the sibling kind ( > and - hold the key on the same side): two DISTINCT references that say the same
\* thing and render to the same SQL statement
Flip(k) == CASE k = ">" -> "<" [] k = "<" -> ">" [] OTHER -> k
RandRef(seed, r) ==
  IF r > 1 /\ Coin(seed, K(25 + r, 0, 13), 18)
  THEN LET p == RandRef0(seed, r - 1) IN
       IF Coin(seed, K(25 + r, 0, 14), 50) /\ p.type \in {">", "<"}
       THEN [p EXCEPT !.left = p.right, !.right = p.left, !.type = Flip(p.type)]
       ELSE [p EXCEPT !.type = CASE p.type = ">" -> "-" [] p.type = "-" -> ">" [] p.type = "<" -> "<>" [] OTHER -> "<"]
  ELSE RandRef0(seed, r)

GName(seed, g) == GroupNames[((Off(seed, 19, Len(GroupNames)) + g) % Len(GroupNames)) + 1]      \* rotation: distinct names for distinct g
RandGroup(seed, g) ==
  LET n == Num(seed, K(30 + g, 0, 1), 0, NTables(seed))
      off == Off(seed, K(30 + g, 0, 2), NTables(seed))
      it(i) == ((off + i) % NTables(seed)) + 1
  IN [d |-> "group", name |-> GName(seed, g),
      items |-> [i \in 1..n |-> LET a == Addr(seed, K(30 + g, i, 3), it(i)) IN [schema |-> a.schema, table |-> a.table]],
      note |-> Maybe(seed, K(30 + g, 0, 4), 30, Texts), color |-> Pick(seed, K(30 + g, 0, 6), Colors), comment |-> ""]

RandSticky(seed, n) == [d |-> "sticky", name |-> StickyNames[n], text |-> Pick(seed, K(34 + n, 0, 1), Texts \o <<"", "">>)]

RandProject(seed) ==
  LET n == Num(seed, K(38, 0, 1), 0, 2) IN
  [d |-> "project", name |-> Pick(seed, K(38, 0, 2), ProjNames),
   items |-> [i \in 1..n |-> <<ProjKeys[i], Pick(seed, K(38, i, 3), Texts)>>],
   note |-> Maybe(seed, K(38, 0, 5), 50, Texts), comment |-> ""]

\* declarations in a seed-dependent order: references may precede their tables, enums may
\* follow their users, the project may be anywhere
Shuffle(seed, ds) ==
  LET Ins(acc, i) == InsertAt(acc, (H(seed, K(39, i, 1)) % (Len(acc) + 1)) + 1, ds[i])
  IN FoldLeft(Ins, <<>>, [i \in DOMAIN ds |-> i])

\* a document without any table: enums, empty groups, sticky notes, project
TablelessDoc(seed) ==
  [e \in 1..Num(seed, 12, 0, 2) |-> RandEnum(seed, e)]
  \o [g \in 1..Num(seed, 13, 0, 2) |-> [d |-> "group", name |-> GName(seed, g), items |-> <<>>,
                                        note |-> Maybe(seed, K(30 + g, 0, 4), 30, Texts), color |-> Pick(seed, K(30 + g, 0, 6), Colors), comment |-> ""]]
  \o [n \in 1..Num(seed, 14, 0, 2) |-> RandSticky(seed, n)]
  \o [p \in 1..Num(seed, 15, 0, 1) |-> RandProject(seed)]

RandDocP(seed, withProps) ==
  IF Coin(seed, 11, 8) THEN TablelessDoc(seed) ELSE
  LET nr == Num(seed, 6, 0, 3)
      ng == Num(seed, 7, 0, 2)
      nn == Num(seed, 8, 0, 2)
      np == Num(seed, 9, 0, 1)
      ds == [e \in 1..NEnums(seed) |-> RandEnum(seed, e)]
            \o [t \in 1..NTables(seed) |-> RandTable(seed, t, withProps)]
            \o [r \in 1..nr |-> RandRef(seed, r)]
            \o [g \in 1..ng |-> RandGroup(seed, g)]
            \o [n \in 1..nn |-> RandSticky(seed, n)]
            \o [p \in 1..np |-> RandProject(seed)]
  IN IF Coin(seed, 10, 70) THEN Shuffle(seed, ds) ELSE ds

RandDoc(seed) == RandDocP(seed, FALSE)

(***************************************************************************)
(* Comments (C14).  A declaration carries the comment it is DECLARED with  *)
(* on the positions where the property promises capture; where the comment *)
(* is written (above or trailing, // or block) is a matter of form.        *)
(***************************************************************************)
CommentTexts == <<"plain comment", "it's \"quoted\"", "{ braces } [x] (y)", "Table x {", "'); DROP TABLE t; --",
                  "a * b / c", "note: 'x'", "~u00fc~ber ~u4e2d~", "path C:\\data\\", "two\nlines", "Ref: a.b > c.d\nEnum e {\n}", "// nested", "#1", "para 1\n\npara 2">>
OneLineComments == SelectSeq(CommentTexts, LAMBDA t : t \notin {"two\nlines", "Ref: a.b > c.d\nEnum e {\n}", "para 1\n\npara 2"})
\* (equal twins again: in a Twins document every comment that is present is the same one-line text)
MaybeC(seed, key, pool) == IF Twins(seed) THEN (IF Coin(seed, key, 70) THEN Pick(seed, 18, OneLineComments) ELSE "")
                           ELSE IF Coin(seed, key, 45) THEN Pick(seed, key + 1, pool) ELSE ""

Commented(seed, doc) ==
  [i \in DOMAIN doc |->
    CASE doc[i].d = "table" ->
           [doc[i] EXCEPT !.comment = MaybeC(seed, K(40 + i, 0, 1), CommentTexts),
                          !.cols = [c \in DOMAIN @ |-> [@[c] EXCEPT !.comment = MaybeC(seed, K(40 + i, c, 3), OneLineComments)]],
                          !.idxs = [x \in DOMAIN @ |-> [@[x] EXCEPT !.comment = MaybeC(seed, K(40 + i, 10 + x, 5), CommentTexts)]]]
      [] doc[i].d = "enum" ->
           [doc[i] EXCEPT !.comment = MaybeC(seed, K(40 + i, 0, 1), CommentTexts),
                          !.items = [c \in DOMAIN @ |-> [@[c] EXCEPT !.comment = MaybeC(seed, K(40 + i, c, 3), CommentTexts)]]]
      [] doc[i].d \in {"ref", "group", "project"} ->
           [doc[i] EXCEPT !.comment = MaybeC(seed, K(40 + i, 0, 1), CommentTexts)]
      [] OTHER -> doc[i]]

(***************************************************************************)
(* The generator state machine: one state per seed.  Documents that are    *)
(* not well-formed (e.g. two random references that coincide) are counted  *)
(* and not emitted.                                                        *)
(***************************************************************************)
CONSTANTS SeedLo, SeedHi, WithProps, WithComments
VARIABLE seed
Init == seed \in SeedLo..SeedHi
Next == UNCHANGED seed
TheDoc == IF WithComments THEN Commented(seed, RandDocP(seed, WithProps)) ELSE RandDocP(seed, WithProps)

\* design level: the operational parser model satisfies the declarative properties on every
\* well-formed document
DesignFaithful == WellFormed(TheDoc) => NothingDropped(TheDoc, ParseDoc(TheDoc, TRUE))
DesignLinked   == WellFormed(TheDoc) => Linked(TheDoc, ParseDoc(TheDoc, TRUE)) /\ OneKeyHolder(ParseDoc(TheDoc, TRUE))
\* enabling properties changes nothing for a document without properties
DesignOptionNeutral ==
  (WellFormed(TheDoc) /\ ~WithProps) =>
     [ParseDoc(TheDoc, TRUE) EXCEPT !.allowprops = FALSE] = ParseDoc(TheDoc, FALSE)
Emit == WellFormed(TheDoc) => PrintT(<<"DOC", seed, ToJson(TheDoc)>>)
=============================================================================
