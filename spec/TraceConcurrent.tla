--------------------------- MODULE TraceConcurrent ---------------------------
(***************************************************************************)
(* Conformance for C11.  One record per execution (a replayed schedule of  *)
(* Concurrent.tla, a free-running threaded execution, or a sequential      *)
(* history with failed parses and edits of earlier results):               *)
(*   [tid, kind, docs, allows, results, fps, shared, reclaimed]            *)
(* docs[i]     the document of parse call i (abstract syntax)              *)
(* results[i]  projection of the database call i returned, or its error    *)
(* fps         fingerprint of the module-level grammar objects after every *)
(*             step (number of parse actions attached to them): must not move  *)
(* shared      objects (by identity) reachable from two different results  *)
(* reclaimed   per call: everything created for it was garbage after the   *)
(*             caller dropped the result                                   *)
(* live        per call of a sequential history: number of parser and      *)
(*             blueprint objects alive right after the call ended          *)
(***************************************************************************)
EXTENDS Diff, Json, IOUtils

Traces == ndJsonDeserialize(IOEnv.TRACE_FILE)

Verdict(e) ==
  LET wrong == {i \in DOMAIN e.docs : ModelDiff(ParseDoc(e.docs[i], e.allows[i]), e.results[i]) # ""} IN
  IF wrong # {} THEN
     LET i == CHOOSE i \in wrong : \A j \in wrong : i <= j IN
     "result of parse call " \o ToString(i) \o " is not a function of its document: " \o ModelDiff(ParseDoc(e.docs[i], e.allows[i]), e.results[i])
  ELSE IF \E i \in DOMAIN e.fps : e.fps[i] # e.fps[1] THEN "the shared grammar objects changed during a parse"
  ELSE IF e.shared # <<>> THEN "results share a mutable object: " \o e.shared[1]
  ELSE IF \E i \in DOMAIN e.reclaimed : ~e.reclaimed[i] THEN "objects of a dropped parse are still reachable from the library"
  \* once a call has returned or failed, its parser and blueprints are garbage (counted after every call of a sequential history)
  ELSE IF \E i \in DOMAIN e.live : e.live[i] # 0
       THEN "after parse call " \o ToString(CHOOSE i \in DOMAIN e.live : e.live[i] # 0 /\ \A j \in 1..(i - 1) : e.live[j] = 0)
            \o " returned or failed, parser or blueprint objects created for it are still alive"
  ELSE ""

VARIABLE ti
TInit == ti = 1
TNext == /\ ti <= Len(Traces)
         /\ PrintT(<<"VERDICT", Traces[ti].tid, Verdict(Traces[ti])>>)
         /\ ti' = ti + 1
=============================================================================
