------------------------------ MODULE TraceSql ------------------------------
(***************************************************************************)
(* Conformance of the SQL renderer with SqlExec.tla (C03, C04, C18; SQL    *)
(* side of C14).  One record per database under test:                      *)
(*   [tid, model, s0, readerr, st, det]                                    *)
(* s0      projection of the database under test (binding to the model)    *)
(* st      the statements the DDL reader read from db.sql, in order        *)
(* readerr "" or why the reader could not read the text                    *)
(* det     the text is the same when rendered again, and when the same     *)
(*         model is rendered in another interpreter with another hash seed *)
(* Verdict <<binding, readable, c03, c04, c18, c14, det>>.                 *)
(***************************************************************************)
EXTENDS SqlExec, Diff, Json, IOUtils

Traces == ndJsonDeserialize(IOEnv.TRACE_FILE)

SetDiff(name, exp, obs) ==
  IF exp = obs THEN ""
  ELSE IF exp \ obs # {} THEN name \o ": promised but absent or different (" \o ToString(Cardinality(exp \ obs)) \o ")"
  ELSE name \o ": present but not promised (" \o ToString(Cardinality(obs \ exp)) \o ")"

C03(m, st) ==
  LET e1 == FirstMsg(st, StepC03)
      joinQs == {JoinQ(m, m.refs[i]) : i \in M2M(m)}
      obsT == {t \in ObsTables(st) : t.q \notin joinQs}
      tq == SetDiff("table names", {t.q : t \in ExpTables(m)}, {t.q : t \in obsT})
  IN IF e1 # "" THEN e1
     ELSE IF Len(OfK(st, "type")) # Len(m.enums) THEN "number of CREATE TYPE statements"
     ELSE IF ObsTypes(st) # ExpTypes(m) THEN SetDiff("types", ExpTypes(m), ObsTypes(st))
     ELSE IF Len(OfK(st, "table")) # Len(m.tables) + Cardinality(M2M(m)) THEN "number of CREATE TABLE statements"
     ELSE IF tq # "" THEN tq
     ELSE IF {[q |-> t.q, cols |-> t.cols] : t \in obsT} # {[q |-> t.q, cols |-> t.cols] : t \in ExpTables(m)} THEN "columns of a table (name, type, PRIMARY KEY, AUTOINCREMENT, UNIQUE, NOT NULL, DEFAULT)"
     ELSE IF obsT # ExpTables(m) THEN "table-level PRIMARY KEY clauses"
     ELSE IF \E s \in Range(OfK(st, "table")) : \E t \in DOMAIN m.tables : s.q = TQ(m, t) /\ Len(s.pks) # NPkClauses(m.tables[t]) THEN "number of PRIMARY KEY clauses"
     ELSE IF Len(OfK(st, "index")) # NIndexes(m) THEN "number of CREATE INDEX statements"
     ELSE IF ObsIndexes(st) # ExpIndexes(m) THEN SetDiff("indexes", ExpIndexes(m), ObsIndexes(st))
     ELSE IF ObsComments(st) # ExpComments(m) THEN SetDiff("COMMENT ON", ExpComments(m), ObsComments(st))
     ELSE IF Len(OfK(st, "comment")) # Cardinality(ExpComments(m)) THEN "number of COMMENT ON statements"
     ELSE ""

C04(m, st) ==
  LET e1 == FirstMsg(st, StepC04)
      joins == {t \in ObsTables(st) : \E i \in M2M(m) : t.q = JoinQ(m, m.refs[i])}
  IN IF e1 # "" THEN e1
     ELSE IF ObsFks(st) # ExpFks(m) THEN SetDiff("foreign keys", ExpFks(m), ObsFks(st))
     ELSE IF NObsFks(st) # Cardinality(Plain(m)) + 2 * Cardinality(M2M(m)) THEN "the number of FOREIGN KEYs is not the number of references (one rendered twice, or two rendered as one)"
     ELSE IF joins # ExpJoinTables(m) THEN SetDiff("join tables", ExpJoinTables(m), joins)
     ELSE ""

C18(m, st) ==
  LET e1 == FirstMsg(st, StepC18)
      created == [i \in DOMAIN OfK(st, "table") |-> OfK(st, "table")[i].q]
      real == SelectSeq(created, LAMBDA q : \E t \in DOMAIN m.tables : TQ(m, t) = q)
  IN IF e1 = "" \/ ~Acyclic(m) THEN ""
     \* the known finding F-C18 explains a wrong ORDER of the right statements only: a table that carries an inline FOREIGN KEY
     \* clause the model does not give it is not explained by it
     ELSE IF {f \in ObsFks(st) : f.inline} # {f \in ExpFks(m) : f.inline} THEN e1 \o " (and the inline clauses are not the model's)"
     ELSE IF real = [i \in DOMAIN AsBuiltOrder(m) |-> TQ(m, AsBuiltOrder(m)[i])] THEN "dev:F-C18"
     ELSE e1

\* C14 (SQL side): every element's comment is emitted with it, as -- lines
ExpElemComments(m) ==
  {<<"table", TQ(m, t), m.tables[t].comment>> : t \in DOMAIN m.tables}
  \cup {<<"type", Q(m.enums[e].schema, m.enums[e].name), m.enums[e].comment>> : e \in DOMAIN m.enums}
  \cup {<<"item", Q(m.enums[ei[1]].schema, m.enums[ei[1]].name), m.enums[ei[1]].items[ei[2]].name, m.enums[ei[1]].items[ei[2]].comment>>
        : ei \in {<<e, i>> \in (DOMAIN m.enums) \X (1..8) : i \in DOMAIN m.enums[e].items}}
  \cup {<<"col", TQ(m, tc[1]), m.tables[tc[1]].cols[tc[2]].name, m.tables[tc[1]].cols[tc[2]].comment>>
        : tc \in {<<t, c>> \in (DOMAIN m.tables) \X (1..12) : c \in DOMAIN m.tables[t].cols}}
  \cup {IF m.tables[tx[1]].idxs[tx[2]].pk
        THEN <<"pkindex", TQ(m, tx[1]), [i \in DOMAIN m.tables[tx[1]].idxs[tx[2]].subj |-> Subj(m.tables[tx[1]], m.tables[tx[1]].idxs[tx[2]].subj[i])],
               m.tables[tx[1]].idxs[tx[2]].comment>>
        ELSE <<"index", TQ(m, tx[1]), [i \in DOMAIN m.tables[tx[1]].idxs[tx[2]].subj |-> Subj(m.tables[tx[1]], m.tables[tx[1]].idxs[tx[2]].subj[i])],
               m.tables[tx[1]].idxs[tx[2]].name, m.tables[tx[1]].idxs[tx[2]].comment>>
        : tx \in {<<t, x>> \in (DOMAIN m.tables) \X (1..10) : x \in DOMAIN m.tables[t].idxs}}
  \cup {<<"fk", ExpFk(m, m.refs[i]), m.refs[i].comment>> : i \in Plain(m)}
  \cup UNION {{<<"fk", f, m.refs[i].comment>> : f \in JoinFks(m, m.refs[i])} : i \in M2M(m)}
ObsElemComments(m, st) ==
  LET joinQs == {JoinQ(m, m.refs[i]) : i \in M2M(m)} IN
  {<<"table", s.q, s.comment>> : s \in {x \in Range(OfK(st, "table")) : x.q \notin joinQs}}
  \cup {<<"type", s.q, s.comment>> : s \in Range(OfK(st, "type"))}
  \cup UNION {{<<"item", s.q, s.items[i], s.icomments[i]>> : i \in DOMAIN s.items} : s \in Range(OfK(st, "type"))}
  \cup UNION {{<<"col", s.q, s.cols[c].name, s.cols[c].comment>> : c \in DOMAIN s.cols} : s \in {x \in Range(OfK(st, "table")) : x.q \notin joinQs}}
  \cup {<<"index", s.on, s.subj, s.name, s.comment>> : s \in Range(OfK(st, "index"))}
  \cup UNION {{<<"pkindex", s.q, s.pks[i].subj, s.pks[i].comment>> : i \in DOMAIN s.pks} : s \in Range(OfK(st, "table"))}
  \cup {<<"fk", FkOf(s.q, s, FALSE), s.comment>> : s \in Range(OfK(st, "alter"))}
  \cup UNION {{<<"fk", FkOf(s.q, s.fks[i], TRUE), s.fks[i].comment>> : i \in DOMAIN s.fks} : s \in Range(OfK(st, "table"))}

\* only the elements that carry a comment are compared (x[Len(x)] is the comment text)
WithComment(S) == {x \in S : x[Len(x)] # ""}
C14(m, st) ==
  IF WithComment(ObsElemComments(m, st)) = WithComment(ExpElemComments(m)) THEN ""
  ELSE LET miss == WithComment(ExpElemComments(m)) \ WithComment(ObsElemComments(m, st)) IN
       IF miss # {} THEN "comment not emitted with its element: " \o (CHOOSE x \in miss : TRUE)[1]
       ELSE "comment lines that belong to no element"

Verdict(e) ==
  LET m == e.model IN
  IF ~SqlDomain(m) THEN <<"out-of-domain", "", "", "", "", "", "">>
  ELSE IF e.readerr # "" THEN <<ModelDiff(m, e.s0), e.readerr, "", "", "", "", "">>
  ELSE <<ModelDiff(m, e.s0), "", C03(m, e.st), C04(m, e.st), C18(m, e.st), C14(m, e.st),
         IF e.det THEN "" ELSE "rendering is not a function of the model">>

VARIABLE ti
TInit == ti = 1
TNext == /\ ti <= Len(Traces)
         /\ PrintT(<<"VERDICT", Traces[ti].tid>> \o Verdict(Traces[ti]))
         /\ ti' = ti + 1
=============================================================================
