--------------------------- MODULE TraceRenderers ---------------------------
(* Conformance for C16: [tid, model, cfg, sd, obs, s_end, counts, s0]
   obs[j]   = [class, hash] observed at step j of Renderers!SessionOf(sd, model)
   s_end    = projection after the session (only compared when no step detached anything)
   counts   = for default renderers without detach: occurrences of each element text in the database text *)
EXTENDS Renderers, Diff, Json, IOUtils

Traces == ndJsonDeserialize(IOEnv.TRACE_FILE)

Verdict(e) ==
  LET sess == SessionOf(e.sd, e.model)
      renders == {j \in DOMAIN sess : sess[j].op = "render"}
      \* an element whose default rendering is itself empty cannot tell "default" from "empty"
      Matches(o, x) == o = x \/ (o = "empty-also-by-default" /\ x \in {"default", "empty"})
      judged == {j \in DOMAIN sess : sess[j].op \in {"render", "addcopy"}}
      wrongClass == {j \in judged : ~Matches(e.obs[j].class, ExpectedClass(e.cfg, sess, j))}
      impure == {p \in renders \X renders : SameTextDue(sess, p[1], p[2]) /\ e.obs[p[1]].hash # e.obs[p[2]].hash}
      anyDetach == \E j \in DOMAIN sess : sess[j].op = "detach"
  IN IF Len(e.obs) # Len(sess) THEN "harness: observations missing"
     ELSE IF ModelDiff(e.model, e.s0) # "" THEN "binding: " \o ModelDiff(e.model, e.s0)
     ELSE IF wrongClass # {} THEN
          LET j == CHOOSE j \in wrongClass : \A i \in wrongClass : j <= i IN
          "step " \o ToString(j) \o ": " \o sess[j].el.k \o "." \o sess[j].out \o " rendered by " \o e.obs[j].class
          \o " instead of " \o ExpectedClass(e.cfg, sess, j)
     ELSE IF impure # {} THEN "the same rendering evaluated twice gives different text"
     ELSE IF ~anyDetach /\ ModelDiff(e.model, e.s_end) # "" THEN "rendering changed the model: " \o ModelDiff(e.model, e.s_end)
     \* counts[i] = <<element, occurrences of its text in the database text, number of top-level elements rendering that text>>:
     \* every element appears exactly once, so a text appears once per element that renders to it
     ELSE IF \E i \in DOMAIN e.counts : e.counts[i][2] # e.counts[i][3] THEN
          LET i == CHOOSE i \in DOMAIN e.counts : e.counts[i][2] # e.counts[i][3] IN
          "text of " \o e.counts[i][1] \o " occurs " \o ToString(e.counts[i][2]) \o " times in the database text"
     \* "leaves ... later renderings unchanged": after the SAME edits, the database whose renderings were evaluated in this
     \* session renders like a database of the same content that was never rendered (later = name of the first rendering
     \* that differs, "" if none or not applicable)
     \* no side effects also means: owner links, back-pointers and query results are what they were before the session
     ELSE IF e.linksmoved # <<>> THEN "the session (renderings, refused or self-replacing adds) changed a link of the object graph: " \o e.linksmoved[1]
     ELSE IF e.later # "" THEN "an earlier rendering changed what a later one shows (after the same edits, rendered-before differs from never-rendered): " \o e.later
     ELSE ""

VARIABLE ti
TInit == ti = 1 /\ seed = 0
TNext == /\ ti <= Len(Traces)
         /\ PrintT(<<"VERDICT", Traces[ti].tid, Verdict(Traces[ti])>>)
         /\ ti' = ti + 1 /\ UNCHANGED seed
=============================================================================
