------------------------------- MODULE Lexis -------------------------------
(***************************************************************************)
(* Character-level codecs of PyDBML (C13).  A text is a sequence of        *)
(* one-character strings.                                                  *)
(*                                                                         *)
(*   Lex(style, s)    the string-literal lexer, as pyparsing's             *)
(*                    QuotedString(quote, escChar = "\\") reads a literal  *)
(*                    (single, double: one line; triple: multi-line)       *)
(*   Write(style, t)  the literal a careful author writes for text t       *)
(*   Norm(t)          what the parser stores for a note: leading/trailing  *)
(*                    blank lines removed, common indentation removed      *)
(*   Quote(t), NoteOption(t), ...  the renderer's helpers, transcribed     *)
(*                    from pydbml/renderer/dbml/default/utils.py           *)
(* TLC checks over ALL texts up to a length bound over the critical        *)
(* alphabet: writer and lexer are inverse, Norm is idempotent, and the     *)
(* renderer's literals lex back to the text.                               *)
(***************************************************************************)
EXTENDS Naturals, Sequences, TLC, SequencesExt

SQ == "'"
DQ == "\""
BS == "\\"
LF == "\n"
SP == " "
TAB == "\t"

IsBlank(c) == c \in {SP, TAB}

(***************************************************************************)
(* The lexer                                                               *)
(***************************************************************************)
\* number of consecutive single quotes starting at position i
RECURSIVE Run(_, _)
Run(s, i) == IF i <= Len(s) /\ s[i] = SQ THEN 1 + Run(s, i + 1) ELSE 0

\* position of the closing quote of a one-line literal whose body starts at i; 0 = unterminated
RECURSIVE CloseLine(_, _, _)
CloseLine(s, i, q) ==
  IF i > Len(s) THEN 0
  ELSE IF s[i] = BS THEN (IF i + 1 <= Len(s) /\ s[i + 1] # LF THEN CloseLine(s, i + 2, q) ELSE 0)
  ELSE IF s[i] = q THEN i
  ELSE IF s[i] \in {LF, "\r"} THEN 0
  ELSE CloseLine(s, i + 1, q)

\* position of the closing ''' of a multi-line literal whose body starts at i: a run of one or
\* two quotes is content, a run of three or more closes (its first three quotes)
RECURSIVE CloseTriple(_, _)
CloseTriple(s, i) ==
  IF i > Len(s) THEN 0
  ELSE IF s[i] = BS THEN (IF i + 1 <= Len(s) THEN CloseTriple(s, i + 2) ELSE 0)
  ELSE IF s[i] = SQ THEN (IF Run(s, i) >= 3 THEN i ELSE CloseTriple(s, i + Run(s, i)))
  ELSE CloseTriple(s, i + 1)

\* escapes: \t \n \f \r give the whitespace character, \c gives c (numeric escapes need digits,
\* which the critical alphabet does not contain)
EscMap(c) == CASE c = "n" -> LF [] c = "t" -> TAB [] c = "r" -> "\r" [] c = "f" -> "\f" [] OTHER -> c
RECURSIVE Unescape(_)
Unescape(b) ==
  IF b = <<>> THEN <<>>
  ELSE IF Head(b) = BS /\ Len(b) >= 2 THEN <<EscMap(b[2])>> \o Unescape(SubSeq(b, 3, Len(b)))
  ELSE <<Head(b)>> \o Unescape(Tail(b))

Fail == [ok |-> FALSE, text |-> <<>>, rest |-> <<>>]
Lex(style, s) ==
  CASE style = "single" ->
         IF Len(s) < 2 \/ s[1] # SQ THEN Fail
         ELSE LET c == CloseLine(s, 2, SQ) IN
              IF c = 0 THEN Fail ELSE [ok |-> TRUE, text |-> Unescape(SubSeq(s, 2, c - 1)), rest |-> SubSeq(s, c + 1, Len(s))]
    [] style = "double" ->
         IF Len(s) < 2 \/ s[1] # DQ THEN Fail
         ELSE LET c == CloseLine(s, 2, DQ) IN
              IF c = 0 THEN Fail ELSE [ok |-> TRUE, text |-> Unescape(SubSeq(s, 2, c - 1)), rest |-> SubSeq(s, c + 1, Len(s))]
    [] style = "triple" ->
         IF Len(s) < 6 \/ SubSeq(s, 1, 3) # <<SQ, SQ, SQ>> THEN Fail
         ELSE LET c == CloseTriple(s, 4) IN
              IF c = 0 THEN Fail ELSE [ok |-> TRUE, text |-> Unescape(SubSeq(s, 4, c - 1)), rest |-> SubSeq(s, c + 3, Len(s))]

\* the grammar tries the longest of the three literal forms that matches (pyparsing `^`)
Styles == <<"single", "double", "triple">>

(***************************************************************************)
(* The careful author                                                      *)
(***************************************************************************)
RECURSIVE EscFor(_, _, _)
EscFor(t, q, oneLine) ==   \* backslash doubled, the quote character escaped, a line break written \n where the style is one line
  IF t = <<>> THEN <<>>
  ELSE LET c == Head(t)
           e == IF c = BS THEN <<BS, BS>> ELSE IF c = q THEN <<BS, q>>
                ELSE IF c = LF /\ oneLine THEN <<BS, "n">> ELSE IF c = TAB THEN <<BS, "t">> ELSE <<c>>
       IN e \o EscFor(Tail(t), q, oneLine)

Write(style, t) ==
  CASE style = "single" -> <<SQ>> \o EscFor(t, SQ, TRUE) \o <<SQ>>
    [] style = "double" -> <<DQ>> \o EscFor(t, DQ, TRUE) \o <<DQ>>
    [] style = "triple" -> <<SQ, SQ, SQ>> \o EscFor(t, SQ, FALSE) \o <<SQ, SQ, SQ>>

(***************************************************************************)
(* Normalisation of note text (tools.strip_empty_lines, remove_indentation)*)
(***************************************************************************)
RECURSIVE SplitLines(_)
SplitLines(t) ==
  LET k == SelectInSeq(t, LAMBDA c : c = LF) IN
  IF k = 0 THEN <<t>> ELSE <<SubSeq(t, 1, k - 1)>> \o SplitLines(SubSeq(t, k + 1, Len(t)))
RECURSIVE JoinLines(_)
JoinLines(ls) == IF Len(ls) = 1 THEN ls[1] ELSE ls[1] \o <<LF>> \o JoinLines(Tail(ls))

BlankLine(l) == \A i \in DOMAIN l : IsBlank(l[i])
HasInk(t) == \E i \in DOMAIN t : ~IsBlank(t[i]) /\ t[i] # LF
RECURSIVE LeadingWs(_)
LeadingWs(l) == IF l # <<>> /\ IsBlank(Head(l)) THEN 1 + LeadingWs(Tail(l)) ELSE 0
MinOf(S) == CHOOSE x \in S : \A y \in S : x <= y

\* defined for texts with at least one character that is not a blank or a line break
Norm(t) ==
  LET ls == SplitLines(t)
      first == CHOOSE i \in DOMAIN ls : ~BlankLine(ls[i]) /\ \A j \in 1..(i - 1) : BlankLine(ls[j])
      last == CHOOSE i \in DOMAIN ls : ~BlankLine(ls[i]) /\ \A j \in (i + 1)..Len(ls) : BlankLine(ls[j])
      body == SubSeq(ls, first, last)
      ind == MinOf({LeadingWs(body[i]) : i \in {j \in DOMAIN body : ~BlankLine(body[j])}})
  IN JoinLines([i \in DOMAIN body |-> SubSeq(body[i], ind + 1, Len(body[i]))])

(***************************************************************************)
(* The renderer's helpers (after the repairs of section 7)                 *)
(***************************************************************************)
RECURSIVE PrepText(_)
PrepText(t) ==   \* prepare_text_for_dbml: backslash doubled; ''' -> \''' (at the very end \'\'\'); ' -> \'
  IF t = <<>> THEN <<>>
  ELSE IF Head(t) = BS THEN <<BS, BS>> \o PrepText(Tail(t))
  ELSE IF t = <<SQ, SQ, SQ>> THEN <<BS, SQ, BS, SQ, BS, SQ>>
  ELSE IF Len(t) >= 3 /\ SubSeq(t, 1, 3) = <<SQ, SQ, SQ>> THEN <<BS, SQ, SQ, SQ>> \o PrepText(SubSeq(t, 4, Len(t)))
  ELSE IF Head(t) = SQ THEN <<BS, SQ>> \o PrepText(Tail(t))
  ELSE <<Head(t)>> \o PrepText(Tail(t))
RECURSIVE PrepLine(_)
PrepLine(t) ==   \* prepare_line_for_dbml: backslash doubled, every quote escaped
  IF t = <<>> THEN <<>>
  ELSE IF Head(t) = BS THEN <<BS, BS>> \o PrepLine(Tail(t))
  ELSE IF Head(t) = SQ THEN <<BS, SQ>> \o PrepLine(Tail(t))
  ELSE <<Head(t)>> \o PrepLine(Tail(t))
MultiLine(t) == \E i \in DOMAIN t : t[i] = LF

Quote(t) ==        \* quote_string: Note bodies, sticky notes, string defaults, property values, index names
  IF MultiLine(t) THEN <<SQ, SQ, SQ, LF>> \o PrepText(t) \o <<SQ, SQ, SQ>> ELSE <<SQ>> \o PrepLine(t) \o <<SQ>>
NoteOption(t) ==   \* note_option_to_dbml (after `note: `)
  IF MultiLine(t) THEN <<SQ, SQ, SQ>> \o PrepText(t) \o <<SQ, SQ, SQ>> ELSE <<SQ>> \o PrepLine(t) \o <<SQ>>
StyleOf(lit) == IF Len(lit) >= 3 /\ SubSeq(lit, 1, 3) = <<SQ, SQ, SQ>> THEN "triple" ELSE "single"

\* the as-built escaping before the repair (finding F-C13a), kept as the regression witness
RECURSIVE OldPrep(_)
OldPrep(t) ==
  IF t = <<>> THEN <<>>
  ELSE IF Len(t) >= 3 /\ SubSeq(t, 1, 3) = <<SQ, SQ, SQ>> THEN <<BS, SQ, SQ, SQ>> \o OldPrep(SubSeq(t, 4, Len(t)))
  ELSE IF Head(t) = SQ THEN <<BS, SQ>> \o OldPrep(Tail(t))
  ELSE <<Head(t)>> \o OldPrep(Tail(t))
OldQuote(t) == IF MultiLine(t) THEN <<SQ, SQ, SQ, LF>> \o OldPrep(t) \o <<SQ, SQ, SQ>> ELSE <<SQ>> \o OldPrep(t) \o <<SQ>>

(***************************************************************************)
(* SQL: a note becomes the body of a single-quoted literal: every single   *)
(* quote is replaced by a double quote and a backslash-newline (DBML line  *)
(* continuation) is removed (renderer/sql/default/note.py)                 *)
(***************************************************************************)
RECURSIVE SqlNote(_)
SqlNote(t) ==
  IF t = <<>> THEN <<>>
  ELSE IF Len(t) >= 2 /\ t[1] = BS /\ t[2] = LF THEN SqlNote(SubSeq(t, 3, Len(t)))
  ELSE IF Head(t) = SQ THEN <<DQ>> \o SqlNote(Tail(t))
  ELSE <<Head(t)>> \o SqlNote(Tail(t))
SqlNeutral(body) == \A i \in DOMAIN body : body[i] # SQ

(***************************************************************************)
(* Properties                                                              *)
(***************************************************************************)
Good(t) == [ok |-> TRUE, text |-> t, rest |-> <<>>]
WriterLexerInverse(t) == \A i \in DOMAIN Styles : Lex(Styles[i], Write(Styles[i], t)) = Good(t)
(***************************************************************************)
(* As built (known findings F-C02d, F-C02j, F-C15a, F-C13c): a multi-line  *)
(* text that is rendered INSIDE an indented element line shares that       *)
(* line's indentation.  textwrap.indent prefixes every line that is not    *)
(* blank-only; the text's first line follows the opening quotes (unless    *)
(* the renderer breaks the line first) and its last line carries the       *)
(* closing quotes, so that one is prefixed even when it is blank.  What    *)
(* comes back is predicted EXACTLY, so that nothing else hides behind the  *)
(* finding.                                                                *)
(***************************************************************************)
Pad(d) == [i \in 1..d |-> SP]
DriftLines(t, d, first) ==
  LET ls == SplitLines(t) IN
  JoinLines([i \in DOMAIN ls |-> IF (i = 1 /\ ~first) \/ (BlankLine(ls[i]) /\ i # Len(ls)) THEN ls[i] ELSE Pad(d) \o ls[i]])
AsBuiltDrift(site, t) ==
  CASE site \in {"column_note", "enumitem_note"} -> Norm(DriftLines(t, 4, FALSE))      \* note: '''text''' in a settings list, normalised when parsed
    [] site = "index_note" -> Norm(DriftLines(t, 8, FALSE))
    [] site = "project_field" -> DriftLines(t, 4, FALSE)                                \* key: '''text''', not normalised
    [] site \in {"table_prop", "column_prop", "string_default"} -> <<LF>> \o DriftLines(t, 4, TRUE)   \* '''<line break>text''', not normalised
    [] site = "index_name" -> <<LF>> \o DriftLines(t, 8, TRUE)

NormIdempotent(t) == HasInk(t) => (HasInk(Norm(t)) /\ Norm(Norm(t)) = Norm(t))
\* a rendered literal lexes back to the text: exactly for values, up to Norm for notes
QuoteExact(t) == ~MultiLine(t) => Lex(StyleOf(Quote(t)), Quote(t)) = Good(t)
QuoteNote(t) == (HasInk(t) /\ Norm(t) = t) =>
                   LET r == Lex(StyleOf(Quote(t)), Quote(t)) IN r.ok /\ r.rest = <<>> /\ HasInk(r.text) /\ Norm(r.text) = t
SqlLiteralNeutral(t) == SqlNeutral(SqlNote(t))
NoteOptionExact(t) == Lex(StyleOf(NoteOption(t)), NoteOption(t)) = Good(t)
=============================================================================
