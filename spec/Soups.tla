------------------------------- MODULE Soups -------------------------------
(***************************************************************************)
(* C08: no internal errors.  The public API as an outcome automaton:       *)
(*   Parse(text)  ->  Db | Failed(c),  c in AllowedFailures                *)
(*   from Db: RenderDbml(x), RenderSql(x) -> Text, for the database and    *)
(*   every element in it                                                   *)
(* Any other exception class (ValueError, KeyError, IndexError,            *)
(* AttributeError, TypeError, UnboundLocalError, RecursionError ...) and   *)
(* non-termination are not steps of the automaton.                         *)
(*                                                                         *)
(* Stimuli chosen by the specification: token soups -- ALL sequences up to *)
(* MaxLen over an alphabet of lexemes that covers every keyword, bracket,  *)
(* operator, literal style and the awkward corners named by the property   *)
(* (whitespace-only and empty strings, quoted names with dots and braces,  *)
(* comment markers, BOM).                                                  *)
(***************************************************************************)
EXTENDS Naturals, Sequences, TLC

Lexemes == <<"Table", "Enum", "Ref", "TableGroup", "Project", "Note", "indexes", "as", "{", "}", "[", "]", "(", ")", ":", ",", ".",
             ">", "<>", "-", "t", "id", "int", "\"a.b\"", "\"a.b.c\"", "\"{x}\"", "' '", "''", "'''\n  \n'''", "'x'", "`e`", "1", "1.5",
             "#fff", "//", "/*", "*/", "\n", "pk", "not null", "null", "note:", "default:", "ref:", "headercolor:", "type:", "name:", "delete:", "cascade", "unique">>

AllowedFailures == {"ParseBaseException", "SyntaxError", "TableNotFoundError", "ColumnNotFoundError", "IndexNotFoundError",
                    "AttributeMissingError", "DuplicateReferenceError", "UnknownDatabaseError", "DBMLError",
                    "DatabaseValidationError", "ValidationError"}

\* outcome of a session: parse = "db" or a class; renders = classes of the render calls made after a Db
SessionOK(parse, renders) ==
  /\ parse = "db" \/ parse \in AllowedFailures
  /\ \A i \in DOMAIN renders : renders[i] = "ok"

CONSTANT MaxLen
VARIABLE soup
Init == soup \in UNION {[1..n -> DOMAIN Lexemes] : n \in 0..MaxLen}
Next == UNCHANGED soup
Emit == PrintT(<<"S", soup>>)
=============================================================================
