------------------------- MODULE TraceContainer -------------------------
(***************************************************************************)
(* Conformance: every (pre, call, post) triple recorded from real pydbml   *)
(* objects must be a step of Container.tla.                                *)
(*                                                                         *)
(* The harness logs the FULL projected state before and after every call,  *)
(* so a recorded history decomposes into independent triples; identical    *)
(* triples are validated once.  The verdict is total: one line per triple  *)
(* naming the first clause that fails, "" when the triple is a step.       *)
(***************************************************************************)
EXTENDS Container, Json, IOUtils

Traces == ndJsonDeserialize(IOEnv.TRACE_FILE)

VARIABLE ti
tvars == <<s, path, ti>>

FnOfPairs(pairs, D, dflt) ==
  [x \in D |-> IF \E i \in DOMAIN pairs : pairs[i][1] = x
               THEN pairs[CHOOSE i \in DOMAIN pairs : pairs[i][1] = x][2] ELSE dflt]

FromLog(p) ==
  [ tables |-> p.tables, tdict |-> Range(p.tdict), refs |-> p.refs, enums |-> p.enums,
    groups |-> p.groups, notes |-> p.notes, project |-> p.project,
    own  |-> FnOfPairs(p.own, TopObjects, FALSE),
    attr |-> [t \in Tables |-> LET r == p.attr[CHOOSE i \in DOMAIN p.attr : p.attr[i].id = t]
                               IN [name |-> r.name, schema |-> r.schema, alias |-> r.alias]],
    cols |-> FnOfPairs(p.cols, Tables, <<>>), idxs |-> FnOfPairs(p.idxs, Tables, <<>>),
    ctab |-> FnOfPairs(p.ctab, Cols, None), itab |-> FnOfPairs(p.itab, Idxs, None),
    out  |-> p.out ]

Fields == <<"out", "tables", "tdict", "refs", "enums", "groups", "notes", "project", "own",
            "attr", "cols", "idxs", "ctab", "itab">>

\* observers must agree with the state: iteration and positional lookup list the tables in
\* order, keyed lookup finds exactly the pairs of the name index, Table[name]/get/iter agree
FirstNamed(x, t, nm) ==
  LET k == FirstIdx(x.cols[t], LAMBDA c : ColName[c] = nm) IN IF k = 0 THEN 0 ELSE x.cols[t][k]

ObserversOK(x, p) ==
  /\ p.iter = x.tables
  /\ p.pos = x.tables
  /\ \A i \in DOMAIN p.lookup :
        LET k == p.lookup[i][1] r == p.lookup[i][2] IN
        IF \E q \in x.tdict : q[1] = k THEN <<k, r>> \in x.tdict ELSE r = 0
  /\ \A i \in DOMAIN p.tget :
        LET g == p.tget[i] IN
        IF g[2] = "#iter" THEN g[3] = 1 /\ g[4] = 1
        ELSE g[3] = FirstNamed(x, g[1], g[2]) /\ g[4] = g[3]

Verdict(e) ==
  LET pre == FromLog(e.pre)
      got == FromLog(e.post)
      exp == Step(pre, e.call)
      bad == {i \in DOMAIN Fields : exp[Fields[i]] # got[Fields[i]]}
  IN  IF ~InDomain(pre, e.call) THEN "out-of-domain"
      ELSE IF bad # {} THEN Fields[CHOOSE i \in bad : \A j \in bad : i <= j]
      ELSE IF e.post.anom # <<>> THEN "anomaly"
      ELSE IF ~ObserversOK(got, e.post) THEN "observers"
      ELSE ""

TInit == ti = 1 /\ s = InitState /\ path = <<>>
TNext == /\ ti <= Len(Traces)
         /\ PrintT(<<"VERDICT", Traces[ti].tid, Verdict(Traces[ti])>>)
         /\ ti' = ti + 1
         /\ s' = IF InDomain(FromLog(Traces[ti].pre), Traces[ti].call)
                 THEN Step(FromLog(Traces[ti].pre), Traces[ti].call) ELSE FromLog(Traces[ti].pre)
         /\ path' = <<ti>>
AllJudged == TLCGet("stats").distinct >= Len(Traces)   \* as a POSTCONDITION
=============================================================================
