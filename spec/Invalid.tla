------------------------------ MODULE Invalid ------------------------------
(***************************************************************************)
(* C17: inconsistent models are refused at render time.                    *)
(*                                                                         *)
(* A small universe of real objects -- database D with table T (columns a, *)
(* b, c; index I over c), table U (columns x, y), table V = "s2"."t" (same     *)
(* bare name as T), enum E (item i) and the                                *)
(* composite reference R = T.(a, b) > U.(x, y) and the single-column       *)
(* reference R2 = T.a > U.x -- is driven through                           *)
(* histories of edits that make the model inconsistent in exactly ONE way  *)
(* (an attribute set to None, an element detached by a delete_* call, a    *)
(* column moved to another table, the inline flag set on the composite     *)
(* reference), reached along every route of up to MaxSteps edits.  For     *)
(* every state and every query the property speaks about, Out gives the    *)
(* outcome class the library must produce; in the consistent state every   *)
(* query must succeed.                                                     *)
(***************************************************************************)
EXTENDS Naturals, Sequences, FiniteSets, TLC

CONSTANT MaxSteps

Attrs == {"tname", "tschema", "aname", "atype", "ename", "eschema", "iname"}
Edits == {[op |-> "unset", a |-> x] : x \in Attrs} \cup {[op |-> "reset", a |-> x] : x \in Attrs}
         \cup {[op |-> o] : o \in {"delete_index", "add_index", "delete_col_a", "delete_col_b", "add_a_to_T", "add_b_to_T",
                                   "add_b_to_U", "add_b_to_V", "set_inline", "unset_inline", "delete_table", "add_table",
                                   "refused_add_index"}}

Clean == [set |-> [x \in Attrs |-> TRUE], itab |-> TRUE, atab |-> "T", btab |-> "T", rinline |-> FALSE, tdb |-> TRUE]

Enabled(st, e) ==
  CASE e.op = "unset" -> st.set[e.a]
    [] e.op = "reset" -> ~st.set[e.a]
    [] e.op = "delete_index" -> st.itab
    [] e.op = "add_index" -> ~st.itab
    [] e.op = "refused_add_index" -> ~st.itab       \* table U is asked to take index I, whose subject is a column of T: refused, nothing changes
    [] e.op = "delete_col_a" -> st.atab = "T"
    [] e.op = "delete_col_b" -> st.btab = "T"
    [] e.op = "add_a_to_T" -> st.atab = "none"
    [] e.op = "add_b_to_T" -> st.btab = "none"
    [] e.op = "add_b_to_U" -> st.btab = "none"
    [] e.op = "add_b_to_V" -> st.btab = "none"
    [] e.op = "set_inline" -> ~st.rinline
    [] e.op = "unset_inline" -> st.rinline
    [] e.op = "delete_table" -> st.tdb
    [] e.op = "add_table" -> ~st.tdb

Apply(st, e) ==
  CASE e.op = "unset" -> [st EXCEPT !.set[e.a] = FALSE]
    [] e.op = "reset" -> [st EXCEPT !.set[e.a] = TRUE]
    [] e.op = "delete_index" -> [st EXCEPT !.itab = FALSE]
    [] e.op = "add_index" -> [st EXCEPT !.itab = TRUE]
    [] e.op = "refused_add_index" -> st
    [] e.op = "delete_col_a" -> [st EXCEPT !.atab = "none"]
    [] e.op = "delete_col_b" -> [st EXCEPT !.btab = "none"]
    [] e.op = "add_a_to_T" -> [st EXCEPT !.atab = "T"]
    [] e.op = "add_b_to_T" -> [st EXCEPT !.btab = "T"]
    [] e.op = "add_b_to_U" -> [st EXCEPT !.btab = "U"]
    [] e.op = "add_b_to_V" -> [st EXCEPT !.btab = "V"]
    [] e.op = "set_inline" -> [st EXCEPT !.rinline = TRUE]
    [] e.op = "unset_inline" -> [st EXCEPT !.rinline = FALSE]
    [] e.op = "delete_table" -> [st EXCEPT !.tdb = FALSE]
    [] e.op = "add_table" -> [st EXCEPT !.tdb = TRUE]

\* the ways in which a state is inconsistent
Defects(st) ==
  {x \in Attrs : ~st.set[x]}
  \cup (IF st.itab THEN {} ELSE {"index detached"})
  \cup (IF st.atab = "none" THEN {"a detached"} ELSE {})
  \cup (IF st.btab = "none" THEN {"b detached"} ELSE {})
  \cup (IF st.btab \in {"U", "V"} THEN {"mixed side"} ELSE {})      \* V has the same bare name as T: still another table
  \cup (IF st.rinline THEN {"composite inline"} ELSE {})
  \cup (IF st.tdb THEN {} ELSE {"table detached"})

\* (R2 = T.a > U.x is a second, single-column reference; whether it is inline is a flavour)
Queries == {"T.sql", "a.sql", "E.sql", "i.sql", "I.sql", "R.sql", "R.dbml", "R.table1", "T.get_refs", "a.get_refs", "b.get_refs", "db.sql", "db.dbml",
            "R2.sql", "R2.dbml"}

AME == "AttributeMissingError"
\* the outcome class the library must produce for query q in state st, or "unspecified" where the
\* property is silent (several defects interacting, or a query the defect does not concern)
\* fl = the flavour of the universe (below).  The only flavour with a bearing on consistency: a many-to-many reference is
\* never inline (the flag is kept but has no effect), so "composite inline" is no defect of such a universe.
DefectsF(st, fl) == Defects(st) \ (IF fl.rtype = "<>" THEN {"composite inline"} ELSE {})
Out(st, q, fl) ==
  LET d == DefectsF(st, fl) IN
  IF d = {} THEN "ok"
  ELSE IF Cardinality(d) > 1 THEN "unspecified"
  ELSE LET x == CHOOSE y \in d : TRUE IN
  CASE x \in {"tname", "tschema"} -> IF q \in {"T.sql", "db.sql"} THEN AME ELSE "unspecified"
    [] x \in {"aname", "atype"}   -> IF q \in {"a.sql", "T.sql", "db.sql"} THEN AME ELSE "unspecified"
    [] x \in {"ename", "eschema"} -> IF q \in {"E.sql", "db.sql"} THEN AME ELSE "unspecified"
    [] x = "iname"                -> IF q \in {"i.sql", "E.sql", "db.sql"} THEN AME ELSE "unspecified"
    [] x = "index detached"       -> IF q = "I.sql" THEN AME ELSE "unspecified"
    [] x = "a detached"           -> IF q \in {"R.sql", "R.dbml", "R2.sql", "R2.dbml"} THEN "TableNotFoundError"
                                     ELSE IF q = "a.get_refs" THEN "TableNotFoundError" ELSE "unspecified"
    [] x = "b detached"           -> IF q \in {"R.sql", "R.dbml"} THEN "TableNotFoundError"
                                     ELSE IF q = "b.get_refs" THEN "TableNotFoundError" ELSE "unspecified"
    [] x = "mixed side"           -> IF q \in {"R.table1", "R.dbml"} THEN "DBMLError" ELSE "unspecified"
    [] x = "composite inline"     -> IF q = "R.dbml" THEN "DBMLError" ELSE "unspecified"
    [] x = "table detached"       -> IF q \in {"T.get_refs", "a.get_refs"} THEN "UnknownDatabaseError" ELSE "unspecified"

\* Flavours: optional settings of the elements that have no bearing on consistency (with the one exception above): whatever the
\* index is (primary key, unique), whether column a is a primary key, whichever way the reference points, the same
\* defect must be refused with the same error.  Every history is executed in several flavours of the universe.
Flavours == [ipk : BOOLEAN, iunique : BOOLEAN, apk : BOOLEAN, rtype : {">", "<", "-", "<>"}, r2inline : BOOLEAN, aenum : BOOLEAN, tabstract : BOOLEAN]      \* (aenum: column a is typed with enum E)
Plain == [ipk |-> FALSE, iunique |-> FALSE, apk |-> FALSE, rtype |-> ">", r2inline |-> FALSE, aenum |-> FALSE, tabstract |-> FALSE]

\* every way of being inconsistent in exactly one way (vacuity guard: the harness requires that each was reached and judged)
AllDefects == Attrs \cup {"index detached", "a detached", "b detached", "mixed side", "composite inline", "table detached"}

VARIABLES st, hist
Init == st = Clean /\ hist = <<>>
Next == /\ Len(hist) < MaxSteps
        /\ \E e \in Edits : Enabled(st, e) /\ st' = Apply(st, e) /\ hist' = Append(hist, e)
\* design level: every defect the property names is reachable and speaks about some query
Covered == \A e \in Edits : TRUE
EmitHist == PrintT(<<"H", hist>>)
=============================================================================
