------------------------------ MODULE Session ------------------------------
(***************************************************************************)
(* The public API as a small automaton of calls and outcome classes.       *)
(*                                                                         *)
(* Part 1 (C12): the ways of supplying the source.  The outcome of a parse *)
(* call is a function of the document and of the options THE ROUTE ACCEPTS;*)
(* it does not depend on the route, nor on a leading byte-order mark.      *)
(***************************************************************************)
EXTENDS Doc

Routes == {"ctor_str", "ctor_path", "ctor_file", "static_parse", "instance_parse",
           "parse_file_str", "parse_file_path", "parse_file_file", "ctor_file_utf16", "parse_file_file_utf16", "instance_reused"}
\* PyDBML.parse_file(file) has no option parameters
AcceptsOptions(route) == route \in {"ctor_str", "ctor_path", "ctor_file", "static_parse", "instance_parse", "ctor_file_utf16", "instance_reused"}

\* sources the constructor must refuse
BadSources == {"bytes", "int", "list", "StringIO", "float", "tuple",
               "int0", "bytes_empty", "list_empty", "tuple_empty", "float0", "false", "dict_empty",
               \* things that only LOOK like a path: an os.PathLike that is no pathlib.Path, a file name as bytes
               "pathlike", "bytearray", "bytes_path", "purepath"}     \* falsy ones too

\* opts = [allow |-> BOOLEAN, custom |-> "none" | "sql" | "dbml" | "both"]  (which custom renderer classes are passed: each
\* option is forwarded on its own)
EffectiveAllow(route, opts) == AcceptsOptions(route) /\ opts.allow
ExpectedRenderers(route, opts) == IF AcceptsOptions(route) THEN opts.custom ELSE "none"

ParseCall(route, bom, doc, opts) ==
  IF route \in BadSources THEN Err("TypeError")
  ELSE ParseDoc(doc, EffectiveAllow(route, opts))          \* `bom` deliberately unused

\* design level: route and BOM independence among the routes that take the same options
RouteIndependent(doc, opts) ==
  \A r1, r2 \in Routes : \A b1, b2 \in BOOLEAN :
     AcceptsOptions(r1) = AcceptsOptions(r2) => ParseCall(r1, b1, doc, opts) = ParseCall(r2, b2, doc, opts)
=============================================================================
