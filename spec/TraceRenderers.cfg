CONSTANTS
  SeedLo = 1
  SeedHi = 1
  WithProps = FALSE
  WithComments = FALSE
INIT TInit
NEXT TNext
CHECK_DEADLOCK FALSE
