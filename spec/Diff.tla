-------------------------------- MODULE Diff --------------------------------
(* Naming the first field in which an observed model differs from the expected one, so that
   every verdict of a trace specification says which clause failed. *)
EXTENDS Doc

\* ---------- first differing field, for readable verdicts ----------
TopFields == <<"kind", "allowprops", "enums", "tables", "refs", "groups", "notes", "project">>

SeqDiff(name, a, b) ==
  IF Len(a) # Len(b) THEN name \o ".len"
  ELSE LET bad == {i \in DOMAIN a : a[i] # b[i]} IN
       IF bad = {} THEN "" ELSE name \o "[" \o ToString(CHOOSE i \in bad : \A j \in bad : i <= j) \o "]"

RecDiff(fields, a, b) ==
  LET bad == {i \in DOMAIN fields : a[fields[i]] # b[fields[i]]} IN
  IF bad = {} THEN "" ELSE fields[CHOOSE i \in bad : \A j \in bad : i <= j]

TableFields == <<"schema", "name", "alias", "color", "note", "props", "comment", "cols", "idxs">>
ColFields == <<"name", "type", "pk", "unique", "notnull", "autoinc", "default", "note", "props", "comment">>

ModelDiff(exp, got) ==
  IF got.kind # exp.kind THEN "kind:" \o got.kind \o (IF got.kind = "error" THEN ":" \o got.class ELSE "")
  ELSE IF exp.kind = "error" THEN (IF got.class = exp.class THEN "" ELSE "class:" \o got.class)
  ELSE LET f == RecDiff(TopFields, exp, got) IN
       IF f = "" THEN ""
       ELSE IF f = "tables" THEN
            LET d == SeqDiff("tables", exp.tables, got.tables) IN
            IF Len(exp.tables) # Len(got.tables) THEN d
            ELSE LET i == CHOOSE i \in DOMAIN exp.tables : exp.tables[i] # got.tables[i] /\ \A j \in 1..(i - 1) : exp.tables[j] = got.tables[j]
                     tf == RecDiff(TableFields, exp.tables[i], got.tables[i])
                 IN IF tf = "cols" /\ Len(exp.tables[i].cols) = Len(got.tables[i].cols)
                    THEN LET c == CHOOSE c \in DOMAIN exp.tables[i].cols : exp.tables[i].cols[c] # got.tables[i].cols[c]
                                     /\ \A j \in 1..(c - 1) : exp.tables[i].cols[j] = got.tables[i].cols[j]
                         IN "tables[" \o ToString(i) \o "].cols[" \o ToString(c) \o "]." \o RecDiff(ColFields, exp.tables[i].cols[c], got.tables[i].cols[c])
                    ELSE "tables[" \o ToString(i) \o "]." \o tf
       ELSE IF f \in {"enums", "refs", "groups", "notes"} THEN SeqDiff(f, exp[f], got[f])
       ELSE f

=============================================================================
