CONSTANT MaxLen = 2
INIT Init
NEXT Next
INVARIANT Emit
CHECK_DEADLOCK FALSE
