CONSTANTS
  SeedLo = 1
  SeedHi = 60
  WithProps = FALSE
  WithComments = FALSE
  MaxEdits = 6
INIT Init
NEXT Next
INVARIANT EditsLocal
INVARIANT EmitEdits
CHECK_DEADLOCK FALSE
