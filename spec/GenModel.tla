------------------------------ MODULE GenModel ------------------------------
(* Models (parsed content) for the renderer checks: ParseDoc of the generated documents. *)
EXTENDS GenDoc, DbmlOut
TheModel == ParseDoc(TheDoc, WithProps)
DesignRoundTrip == WellFormed(TheDoc) => RoundTripButRefOrder(TheModel)
DesignFixpoint  == WellFormed(TheDoc) => FixpointHolds(TheModel)
EmitModel == WellFormed(TheDoc) => PrintT(<<"DOC", seed, ToJson([doc |-> TheDoc, model |-> TheModel, reforder |-> RefOrderKept(TheModel)])>>)
=============================================================================
