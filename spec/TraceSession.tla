---------------------------- MODULE TraceSession ----------------------------
(* [tid, parse, renders, where]: outcome classes of one parse-and-render-everything session *)
EXTENDS Soups, Json, IOUtils
Traces == ndJsonDeserialize(IOEnv.TRACE_FILE)
Verdict(e) ==
  IF SessionOK(e.parse, e.renders) THEN ""
  ELSE IF e.parse # "db" THEN "parsing escaped with " \o e.parse \o " at " \o e.where
  ELSE "a rendering of a parsed database raised " \o (CHOOSE c \in {e.renders[i] : i \in DOMAIN e.renders} : c # "ok") \o " at " \o e.where
VARIABLE ti
TInit == ti = 1 /\ soup = <<>>
TNext == /\ ti <= Len(Traces)
         /\ PrintT(<<"VERDICT", Traces[ti].tid, Verdict(Traces[ti])>>)
         /\ ti' = ti + 1 /\ UNCHANGED soup
=============================================================================
