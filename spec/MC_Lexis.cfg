CONSTANT MaxLen = 4
INIT Init
NEXT Next
INVARIANT InvWriter
INVARIANT InvNorm
INVARIANT InvQuoteExact
INVARIANT InvQuoteNote
INVARIANT InvNoteOption
CHECK_DEADLOCK FALSE
