CONSTANT MaxLen = 4
CONSTANT NLines = 3
INIT Init
NEXT Next
INVARIANT InvWriter
INVARIANT InvNorm
INVARIANT InvQuoteExact
INVARIANT InvQuoteNote
INVARIANT InvNoteOption
INVARIANT InvSqlNeutral
CHECK_DEADLOCK FALSE
