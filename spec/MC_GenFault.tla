---- MODULE MC_GenFault ----
EXTENDS GenFault
====
