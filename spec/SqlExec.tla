------------------------------ MODULE SqlExec ------------------------------
(***************************************************************************)
(* SQL DDL as a program for a catalog state machine (C03, C04, C18).       *)
(*                                                                         *)
(* ExpectedCatalog(m) transcribes what the properties promise for a model  *)
(* m (Doc.tla): the types, tables (ordered columns with their clauses,     *)
(* table-level PRIMARY KEY clauses), indexes, foreign keys (inline clause  *)
(* or ALTER TABLE, never both), many-to-many join tables and comments.     *)
(*                                                                         *)
(* Exec runs a sequence of statements (as the DDL reader returns them from *)
(* the real `.sql`) through the catalog: a statement is ENABLED only if    *)
(* what it names already exists -- CREATE INDEX / COMMENT ON / ALTER TABLE *)
(* name a table by the qualified name it was created with, an inline       *)
(* FOREIGN KEY clause references a table created earlier (or the table     *)
(* itself).  C18 is the enabledness of CreateTable.                        *)
(***************************************************************************)
EXTENDS Doc

Q(schema, name) == IF schema = "public" THEN <<name>> ELSE <<schema, name>>
QText(q) == IF Len(q) = 1 THEN "\"" \o q[1] \o "\"" ELSE "\"" \o q[1] \o "\".\"" \o q[2] \o "\""
TQ(m, t) == Q(m.tables[t].schema, m.tables[t].name)

Upper(a) == CASE a = "" -> "" [] a = "cascade" -> "CASCADE" [] a = "no action" -> "NO ACTION" [] a = "restrict" -> "RESTRICT"
              [] a = "set null" -> "SET NULL" [] a = "set default" -> "SET DEFAULT"
              [] a = "btree" -> "BTREE" [] a = "hash" -> "HASH" [] a = "gin" -> "GIN" [] a = "gist" -> "GIST"
              [] a = "brin" -> "BRIN" [] a = "spgist" -> "SPGIST" [] OTHER -> a

\* note text inside the single-quoted SQL literal: every ' becomes " (the text pool's quote-bearing
\* members are listed; Lexis.tla states the rule character by character for C13)
SqlText(t) == CASE t = "it's" -> "it\"s" [] t = "'''" -> "\"\"\"" [] OTHER -> t

DefText(df) == CASE df.k = "bool" -> (IF df.v = "true" THEN "True" ELSE "False")
                 [] df.k = "expr" -> "(" \o df.v \o ")"
                 [] OTHER -> df.v
TypeSql(m, ty) == IF ty.k = "enum" THEN QText(Q(m.enums[ty.e].schema, m.enums[ty.e].name)) ELSE ty.v

PkCols(tb) == SelectSeq([c \in DOMAIN tb.cols |-> c], LAMBDA c : tb.cols[c].pk)
Composite(tb) == Len(PkCols(tb)) > 1

ExpCol(m, tb, c) ==
  [name |-> tb.cols[c].name, type |-> TypeSql(m, tb.cols[c].type), pk |-> tb.cols[c].pk /\ ~Composite(tb),
   ai |-> tb.cols[c].autoinc, uq |-> tb.cols[c].unique, nn |-> tb.cols[c].notnull,
   hasdef |-> tb.cols[c].default.k # "none", def |-> IF tb.cols[c].default.k = "none" THEN "" ELSE DefText(tb.cols[c].default)]

Subj(tb, sj) == IF sj.k = "col" THEN [k |-> "col", v |-> tb.cols[sj.i].name] ELSE [k |-> "expr", v |-> sj.v]
ExpPks(tb) ==
  {[i \in DOMAIN tb.idxs[x].subj |-> Subj(tb, tb.idxs[x].subj[i])] : x \in {y \in DOMAIN tb.idxs : tb.idxs[y].pk}}
  \cup (IF Composite(tb) THEN {[i \in DOMAIN PkCols(tb) |-> [k |-> "col", v |-> tb.cols[PkCols(tb)[i]].name]]} ELSE {})
\* number of PRIMARY KEY clauses promised for the table
NPkClauses(tb) == Cardinality({y \in DOMAIN tb.idxs : tb.idxs[y].pk}) + (IF Composite(tb) THEN 1 ELSE 0)

\* a PRIMARY KEY clause that stems from a pk index (not from the pk columns): its name, for comments
TableOfQ(m, q) == CHOOSE t \in DOMAIN m.tables : TQ(m, t) = q
IsPkIndex(m, q, subj) ==
  /\ \E t \in DOMAIN m.tables : TQ(m, t) = q
  /\ \E x \in DOMAIN m.tables[TableOfQ(m, q)].idxs :
        LET ix == m.tables[TableOfQ(m, q)].idxs[x] IN ix.pk /\ [i \in DOMAIN ix.subj |-> Subj(m.tables[TableOfQ(m, q)], ix.subj[i])] = subj
PkIdxName(m, q, subj) ==
  LET tb == m.tables[TableOfQ(m, q)]
      x == CHOOSE x \in DOMAIN tb.idxs : tb.idxs[x].pk /\ [i \in DOMAIN tb.idxs[x].subj |-> Subj(tb, tb.idxs[x].subj[i])] = subj
  IN tb.idxs[x].name

(***************************************************************************)
(* Foreign keys                                                            *)
(***************************************************************************)
HolderT(r) == IF r.type = "<" THEN r.t2 ELSE r.t1
HolderC(r) == IF r.type = "<" THEN r.c2 ELSE r.c1
TargetT(r) == IF r.type = "<" THEN r.t1 ELSE r.t2
TargetC(r) == IF r.type = "<" THEN r.c1 ELSE r.c2
Names(m, t, cs) == [i \in DOMAIN cs |-> m.tables[t].cols[cs[i]].name]

ExpFk(m, r) ==
  [holder |-> TQ(m, HolderT(r)), cols |-> Names(m, HolderT(r), HolderC(r)),
   ref |-> TQ(m, TargetT(r)), refcols |-> Names(m, TargetT(r), TargetC(r)),
   cname |-> r.name, onupdate |-> Upper(r.onupdate), ondelete |-> Upper(r.ondelete), inline |-> r.inline]

\* many-to-many: join table <left>_<right> in the left table's schema
JoinQ(m, r) == Q(m.tables[r.t1].schema, m.tables[r.t1].name \o "_" \o m.tables[r.t2].name)
JoinColNames(m, r) == [i \in DOMAIN r.c1 |-> m.tables[r.t1].name \o "_" \o m.tables[r.t1].cols[r.c1[i]].name]
                      \o [i \in DOMAIN r.c2 |-> m.tables[r.t2].name \o "_" \o m.tables[r.t2].cols[r.c2[i]].name]
JoinCols(m, r) ==
  [i \in DOMAIN r.c1 |-> [name |-> JoinColNames(m, r)[i], type |-> TypeSql(m, m.tables[r.t1].cols[r.c1[i]].type),
                          pk |-> FALSE, ai |-> FALSE, uq |-> FALSE, nn |-> TRUE, hasdef |-> FALSE, def |-> ""]]
  \o [i \in DOMAIN r.c2 |-> [name |-> JoinColNames(m, r)[Len(r.c1) + i], type |-> TypeSql(m, m.tables[r.t2].cols[r.c2[i]].type),
                             pk |-> FALSE, ai |-> FALSE, uq |-> FALSE, nn |-> TRUE, hasdef |-> FALSE, def |-> ""]]
JoinFks(m, r) ==
  {[holder |-> JoinQ(m, r), cols |-> SubSeq(JoinColNames(m, r), 1, Len(r.c1)), ref |-> TQ(m, r.t1), refcols |-> Names(m, r.t1, r.c1),
    cname |-> "", onupdate |-> Upper(r.onupdate), ondelete |-> Upper(r.ondelete), inline |-> FALSE],
   [holder |-> JoinQ(m, r), cols |-> SubSeq(JoinColNames(m, r), Len(r.c1) + 1, Len(r.c1) + Len(r.c2)), ref |-> TQ(m, r.t2),
    refcols |-> Names(m, r.t2, r.c2),
    cname |-> "", onupdate |-> Upper(r.onupdate), ondelete |-> Upper(r.ondelete), inline |-> FALSE]}

M2M(m) == {i \in DOMAIN m.refs : m.refs[i].type = "<>"}
Plain(m) == DOMAIN m.refs \ M2M(m)

(***************************************************************************)
(* Expected catalog                                                        *)
(***************************************************************************)
ExpTypes(m) == {[q |-> Q(m.enums[e].schema, m.enums[e].name), items |-> [i \in DOMAIN m.enums[e].items |-> m.enums[e].items[i].name]]
                : e \in DOMAIN m.enums}
ExpTables(m) == {[q |-> TQ(m, t), cols |-> [c \in DOMAIN m.tables[t].cols |-> ExpCol(m, m.tables[t], c)],
                  pks |-> ExpPks(m.tables[t])] : t \in DOMAIN m.tables}
ExpJoinTables(m) == {[q |-> JoinQ(m, m.refs[i]), cols |-> JoinCols(m, m.refs[i]),
                      pks |-> {[k \in DOMAIN JoinColNames(m, m.refs[i]) |-> [k |-> "col", v |-> JoinColNames(m, m.refs[i])[k]]]}]
                     : i \in M2M(m)}
ExpIndexes(m) ==
  {[unique |-> m.tables[t].idxs[x].unique, name |-> m.tables[t].idxs[x].name, on |-> TQ(m, t),
    using |-> Upper(m.tables[t].idxs[x].type),
    subj |-> [i \in DOMAIN m.tables[t].idxs[x].subj |-> Subj(m.tables[t], m.tables[t].idxs[x].subj[i])]]
   : <<t, x>> \in {<<t, x>> \in (DOMAIN m.tables) \X (1..10) : x \in DOMAIN m.tables[t].idxs /\ ~m.tables[t].idxs[x].pk}}
NIndexes(m) == FoldLeft(LAMBDA a, tb : a + Len(SelectSeq(tb.idxs, LAMBDA x : ~x.pk)), 0, m.tables)
ExpFks(m) == {ExpFk(m, m.refs[i]) : i \in Plain(m)} \cup UNION {JoinFks(m, m.refs[i]) : i \in M2M(m)}
ExpComments(m) ==
  {[what |-> "TABLE", target |-> TQ(m, t), text |-> SqlText(m.tables[t].note)] : t \in {u \in DOMAIN m.tables : m.tables[u].note # ""}}
  \cup {[what |-> "COLUMN", target |-> TQ(m, tc[1]) \o <<m.tables[tc[1]].cols[tc[2]].name>>, text |-> SqlText(m.tables[tc[1]].cols[tc[2]].note)]
        : tc \in {<<t, c>> \in (DOMAIN m.tables) \X (1..12) : c \in DOMAIN m.tables[t].cols /\ m.tables[t].cols[c].note # ""}}

\* the SQL domain: names are unique enough for the promised statements to be distinguishable, and
\* a many-to-many reference does not produce two join columns of one name (self reference on
\* overlapping columns): DBML cannot mean anything executable by those
SqlDomain(m) ==
  /\ m.kind = "db"
  /\ \A i \in M2M(m) : Distinct(JoinColNames(m, m.refs[i]))
  /\ \A i, j \in M2M(m) : i # j => JoinQ(m, m.refs[i]) # JoinQ(m, m.refs[j])
  /\ \A i \in M2M(m) : \A t \in DOMAIN m.tables : JoinQ(m, m.refs[i]) # TQ(m, t)

(***************************************************************************)
(* Observed statements (records of the DDL reader)                         *)
(***************************************************************************)
OfK(st, k) == SelectSeq(st, LAMBDA s : s.k = k)
ObsTypes(st) == {[q |-> s.q, items |-> s.items] : s \in Range(OfK(st, "type"))}
ObsCols(s) == [c \in DOMAIN s.cols |-> [name |-> s.cols[c].name, type |-> s.cols[c].type, pk |-> s.cols[c].pk, ai |-> s.cols[c].ai,
                                       uq |-> s.cols[c].uq, nn |-> s.cols[c].nn, hasdef |-> s.cols[c].hasdef, def |-> s.cols[c].def]]
ObsTables(st) == {[q |-> s.q, cols |-> ObsCols(s), pks |-> {s.pks[i].subj : i \in DOMAIN s.pks}] : s \in Range(OfK(st, "table"))}
ObsIndexes(st) == {[unique |-> s.unique, name |-> s.name, on |-> s.on, using |-> s.using, subj |-> s.subj] : s \in Range(OfK(st, "index"))}
ObsComments(st) == {[what |-> s.what, target |-> s.target, text |-> s.text] : s \in Range(OfK(st, "comment"))}
FkOf(holder, f, inline) == [holder |-> holder, cols |-> f.cols, ref |-> f.ref, refcols |-> f.refcols, cname |-> f.cname,
                            onupdate |-> f.onupdate, ondelete |-> f.ondelete, inline |-> inline]
ObsFks(st) ==
  {FkOf(s.q, s, FALSE) : s \in Range(OfK(st, "alter"))}
  \cup UNION {{FkOf(s.q, s.fks[i], TRUE) : i \in DOMAIN s.fks} : s \in Range(OfK(st, "table"))}
NObsFks(st) == Len(OfK(st, "alter")) + FoldLeft(LAMBDA a, s : a + Len(s.fks), 0, OfK(st, "table"))

(***************************************************************************)
(* Executing the script top to bottom                                      *)
(***************************************************************************)
\* tables created by the first n statements, with their column names
Created(st, n) == {[q |-> st[i].q, cols |-> {st[i].cols[c].name : c \in DOMAIN st[i].cols}] : i \in {j \in 1..n : st[j].k = "table"}}
HasTable(cr, q) == \E t \in cr : t.q = q
HasCols(cr, q, cs) == \E t \in cr : t.q = q /\ \A i \in DOMAIN cs : cs[i] \in t.cols

\* why statement i cannot be executed after statements 1..i-1 ("" = it can); by clause owner
StepC03(st, i) ==
  LET s == st[i] cr == Created(st, i - 1) IN
  CASE s.k = "type" -> IF \E j \in 1..(i - 1) : st[j].k = "type" /\ st[j].q = s.q THEN "type created twice" ELSE ""
    [] s.k = "table" -> IF HasTable(cr, s.q) THEN "table created twice" ELSE ""
    [] s.k = "index" -> IF ~HasTable(cr, s.on) THEN "CREATE INDEX names a table that was not created under that name"
                        ELSE IF \E k \in DOMAIN s.subj : s.subj[k].k = "col" /\ ~HasCols(cr, s.on, <<s.subj[k].v>>) THEN "index over a missing column" ELSE ""
    [] s.k = "comment" -> IF s.what = "TABLE" THEN (IF HasTable(cr, s.target) THEN "" ELSE "COMMENT ON TABLE names a table that was not created under that name")
                          ELSE IF Len(s.target) < 2 \/ ~HasCols(cr, SubSeq(s.target, 1, Len(s.target) - 1), <<s.target[Len(s.target)]>>)
                               THEN "COMMENT ON COLUMN names a table/column that was not created under that name" ELSE ""
    [] OTHER -> ""
StepC04(st, i) ==
  LET s == st[i] cr == Created(st, i - 1) IN
  IF s.k = "alter" THEN (IF ~HasCols(cr, s.q, s.cols) THEN "ALTER TABLE on a missing table/column"
                         ELSE IF ~HasCols(cr, s.ref, s.refcols) THEN "foreign key references a missing table/column" ELSE "")
  ELSE ""
\* C18: an inline FOREIGN KEY clause references a table created earlier, or the table itself
StepC18(st, i) ==
  LET s == st[i] cr == Created(st, i - 1) IN
  IF s.k = "table" /\ \E f \in DOMAIN s.fks : s.fks[f].ref # s.q /\ ~HasTable(cr, s.fks[f].ref)
  THEN "CREATE TABLE with an inline FOREIGN KEY to a table that is created later" ELSE ""

FirstMsg(st, F(_, _)) == FirstErr(Len(st), LAMBDA i : F(st, i))

(***************************************************************************)
(* C18 as built (finding F-C18): tables are sorted by the number of inline *)
(* `>` references they start / `<` references they end (counted by BARE    *)
(* table name), descending, stable -- key holders first.                   *)
(***************************************************************************)
InlineCount(m, t) ==
  Cardinality({i \in DOMAIN m.refs : m.refs[i].inline /\
                 ((m.refs[i].type = ">" /\ m.tables[m.refs[i].t1].name = m.tables[t].name)
                  \/ (m.refs[i].type = "<" /\ m.tables[m.refs[i].t2].name = m.tables[t].name))})
Before(m, a, b) == InlineCount(m, a) > InlineCount(m, b) \/ (InlineCount(m, a) = InlineCount(m, b) /\ a < b)
AsBuiltOrder(m) == SortSeq([t \in DOMAIN m.tables |-> t], LAMBDA a, b : Before(m, a, b))
\* the inline reference graph over tables (holder -> target) has no cycle (self references aside)
InlineEdges(m) == {<<HolderT(m.refs[i]), TargetT(m.refs[i])>> : i \in {j \in Plain(m) : m.refs[j].inline /\ HolderT(m.refs[j]) # TargetT(m.refs[j])}}
RECURSIVE Reach(_, _, _)
Reach(E, S, n) == IF n = 0 THEN S ELSE Reach(E, S \cup {e[2] : e \in {x \in E : x[1] \in S}}, n - 1)
Acyclic(m) == \A t \in DOMAIN m.tables : t \notin Reach(InlineEdges(m), {e[2] : e \in {x \in InlineEdges(m) : x[1] = t}}, Len(m.tables))
=============================================================================
