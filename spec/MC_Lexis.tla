----------------------------- MODULE MC_Lexis -----------------------------
(* All texts up to MaxLen over the critical alphabet: a letter, `n` (so that \n can form), blank,
   line break, both quotes, backslash, backtick. *)
EXTENDS Lexis
CONSTANT MaxLen
Alphabet == {"a", "n", " ", "\n", "'", "\"", "\\", "`"}
VARIABLE t
\* plus a few texts outside the alphabet: expressions that begin and end with a parenthesis
LongLine(n) == [i \in 1..n |-> IF i % 10 = 0 THEN " " ELSE "x"]      \* one-line texts longer than any sensible line width
Extra == { LongLine(45), LongLine(70), LongLine(90), LongLine(130), LongLine(260), <<"a", "\n", "\n", "\n", "a">>, <<"a", "\n", "\n", "\n", "\n", "n">>, <<"a", "\n", " ", "\n", "\n", "a">>, <<"(", "a", ")">>, <<"(", "a", ")", " ", "(", "n", ")">>, <<"(", "(", "a", ")", ")">>, <<"(", "a", ")", "n">>, <<"a", "(", ")">>,
           \* texts that mean something to a formatting or substitution routine
           <<"{">>, <<"}">>, <<"{", "}">>, <<"{", "a", "}">>, <<"{", "{", "a", "}", "}">>, <<"{", "0", "}">>, <<"%", "s">>, <<"%">>, <<"%", "(", "a", ")", "s">>,
           <<"$", "a">>, <<"\\", "1">>, <<"\\", "g", "<", "0", ">">>, <<"a", "{">>, <<"}", "a">> }
\* layout family: texts as LINES, each an indentation of 0..3 blanks followed by nothing (a blank-only line), a word, or
\* words with a trailing blank -- the shapes note normalisation (common indentation, blank-only lines) depends on and
\* which short texts over the alphabet cannot reach (the smallest interesting one has 10 characters)
CONSTANT NLines
LineShapes == {<<k, c>> : k \in 0..3, c \in {<<>>, <<"a">>, <<"a", " ", "n", " ">>}}
LineOf(s) == [i \in 1..s[1] |-> " "] \o s[2]
RECURSIVE GlueLines(_)
GlueLines(ls) == IF Len(ls) = 1 THEN LineOf(ls[1]) ELSE LineOf(ls[1]) \o <<"\n">> \o GlueLines(Tail(ls))
LayoutTexts == {GlueLines(ls) : ls \in UNION {[1..n -> LineShapes] : n \in 2..NLines}}
Init == t \in UNION {[1..n -> Alphabet] : n \in 0..MaxLen} \cup Extra \cup LayoutTexts
Next == UNCHANGED t
InvWriter == WriterLexerInverse(t)
InvNorm == NormIdempotent(t)
InvQuoteExact == QuoteExact(t)
InvQuoteNote == QuoteNote(t)
InvNoteOption == NoteOptionExact(t)
InvSqlNeutral == SqlLiteralNeutral(t)
\* negative control: the escaping as it was before the repair does NOT lex back
InvOldQuote == ~MultiLine(t) => Lex("single", OldQuote(t)) = Good(t)
Emit == PrintT(<<"T", t, Write("single", t), Write("double", t), Write("triple", t),
                 IF HasInk(t) THEN <<Norm(t)>> ELSE <<>>>>)
=============================================================================
