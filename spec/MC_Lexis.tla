----------------------------- MODULE MC_Lexis -----------------------------
(* All texts up to MaxLen over the critical alphabet: a letter, `n` (so that \n can form), blank,
   line break, both quotes, backslash, backtick. *)
EXTENDS Lexis
CONSTANT MaxLen
Alphabet == {"a", "n", " ", "\n", "'", "\"", "\\", "`"}
VARIABLE t
\* plus a few texts outside the alphabet: expressions that begin and end with a parenthesis
Extra == { <<"(", "a", ")">>, <<"(", "a", ")", " ", "(", "n", ")">>, <<"(", "(", "a", ")", ")">>, <<"(", "a", ")", "n">>, <<"a", "(", ")">> }
Init == t \in UNION {[1..n -> Alphabet] : n \in 0..MaxLen} \cup Extra
Next == UNCHANGED t
InvWriter == WriterLexerInverse(t)
InvNorm == NormIdempotent(t)
InvQuoteExact == QuoteExact(t)
InvQuoteNote == QuoteNote(t)
InvNoteOption == NoteOptionExact(t)
InvSqlNeutral == SqlLiteralNeutral(t)
\* negative control: the escaping as it was before the repair does NOT lex back
InvOldQuote == ~MultiLine(t) => Lex("single", OldQuote(t)) = Good(t)
Emit == PrintT(<<"T", t, Write("single", t), Write("double", t), Write("triple", t),
                 IF HasInk(t) THEN <<Norm(t)>> ELSE <<>>>>)
=============================================================================
