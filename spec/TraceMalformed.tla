--------------------------- MODULE TraceMalformed ---------------------------
(* [tid, fault, site, outcome, probe, after]: outcome = class of the exception, or "db" if the parse returned;
   after = projection of the database returned by the NEXT parse call in the same process, of the small document
   `probe`: no fragment of a rejected document may leak into a later result either *)
EXTENDS Malformed, Diff, Json, IOUtils
Traces == ndJsonDeserialize(IOEnv.TRACE_FILE)
ProbeExpected == ParseDoc(Traces[1].probe, FALSE)      \* the probe document is the same in every record
Verdict(e) ==
  \* with arbitrary properties enabled, `[key: 'text']` in a column's settings IS a declaration: that one fault is then no fault
  IF ~ProvablyInvalid(e.fault, e.site) \/ (e.allow /\ e.propsyntax /\ e.site.kind = "column") THEN "out-of-domain"
  ELSE IF Allowed(e.outcome) THEN
       (IF e.after = ProbeExpected THEN ""
        ELSE "a fragment of the rejected document leaked into the next result: " \o ModelDiff(ProbeExpected, e.after))
  ELSE IF e.outcome = "db" THEN "malformed text accepted: " \o e.fault \o " in " \o e.site.ctx \o " at a " \o e.site.kind \o " line"
  ELSE "malformed text not answered with a syntax error but " \o e.outcome \o " (" \o e.fault \o ")"
VARIABLE ti
TInit == ti = 1
TNext == /\ ti <= Len(Traces)
         /\ PrintT(<<"VERDICT", Traces[ti].tid, Verdict(Traces[ti])>>)
         /\ ti' = ti + 1
=============================================================================
