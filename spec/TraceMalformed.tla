--------------------------- MODULE TraceMalformed ---------------------------
(* [tid, fault, site, outcome]: outcome = class of the exception, or "db" if the parse returned *)
EXTENDS Malformed, Json, IOUtils
Traces == ndJsonDeserialize(IOEnv.TRACE_FILE)
Verdict(e) ==
  IF ~ProvablyInvalid(e.fault, e.site) THEN "out-of-domain"
  ELSE IF Allowed(e.outcome) THEN ""
  ELSE IF e.outcome = "db" THEN "malformed text accepted: " \o e.fault \o " in " \o e.site.ctx \o " at a " \o e.site.kind \o " line"
  ELSE "malformed text not answered with a syntax error but " \o e.outcome \o " (" \o e.fault \o ")"
VARIABLE ti
TInit == ti = 1
TNext == /\ ti <= Len(Traces)
         /\ PrintT(<<"VERDICT", Traces[ti].tid, Verdict(Traces[ti])>>)
         /\ ti' = ti + 1
=============================================================================
