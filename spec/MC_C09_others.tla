------------------------- MODULE MC_C09_others -------------------------
(* Universe "others" (DESIGN 4.6): enums clashing by name and equal by content, groups sharing a
   name, two projects, sticky notes that may be added repeatedly, objects of unsupported type, and
   one table with a reference so that every Database.add/delete dispatch branch is reachable. *)
EXTENDS Container, Json, SequencesExt

TableDefs == <<
  [id |-> 1, name |-> "n1", schema |-> "public", alias |-> "", sig |-> "A", cols |-> <<11>>, idxs |-> <<>>] >>
ColDefs == <<
  [id |-> 11, name |-> "id", type |-> "int"] >>
IdxDefs == <<>>
RefDefs == <<
  [id |-> 41, type |-> "-", c1 |-> <<11>>, c2 |-> <<11>>, sig |-> "", inline |-> FALSE] >>
EnumDefs == <<
  [id |-> 51, schema |-> "public", name |-> "e", items |-> <<"a", "b">>],
  [id |-> 52, schema |-> "public", name |-> "e", items |-> <<"a", "b">>],
  [id |-> 53, schema |-> "s", name |-> "e", items |-> <<"a">>] >>
GroupDefs == <<
  [id |-> 61, name |-> "g"], [id |-> 62, name |-> "g"], [id |-> 63, name |-> "h"] >>
StickyDefs == <<
  [id |-> 71, name |-> "note", text |-> "x"], [id |-> 72, name |-> "note", text |-> "x"] >>
ProjectDefs == <<
  [id |-> 81, name |-> "p1"], [id |-> 82, name |-> "p2"] >>
JunkDefs == <<
  [id |-> 91, what |-> "str"], [id |-> 92, what |-> "object"] >>
Ids(defs) == {defs[i].id : i \in DOMAIN defs}
Def(defs, x) == CHOOSE d \in Range(defs) : d.id = x

MC_Tables == Ids(TableDefs)
MC_Cols == Ids(ColDefs)
MC_Idxs == Ids(IdxDefs)
MC_Refs == Ids(RefDefs)
MC_Enums == Ids(EnumDefs)
MC_Groups == Ids(GroupDefs)
MC_Stickies == Ids(StickyDefs)
MC_Projects == Ids(ProjectDefs)
MC_Junk == Ids(JunkDefs)
MC_TableInit == [t \in MC_Tables |-> Def(TableDefs, t)]
MC_ColSig == [c \in MC_Cols |-> Def(ColDefs, c).name \o ":" \o Def(ColDefs, c).type]
MC_ColName == [c \in MC_Cols |-> Def(ColDefs, c).name]
MC_IdxSig == [i \in MC_Idxs |-> Def(IdxDefs, i).sig]
MC_IdxSubj == [i \in MC_Idxs |-> Def(IdxDefs, i).subj]
MC_RefSig == [r \in MC_Refs |-> Def(RefDefs, r).type \o "/" \o Def(RefDefs, r).sig]
MC_RefC1 == [r \in MC_Refs |-> Def(RefDefs, r).c1]
MC_RefC2 == [r \in MC_Refs |-> Def(RefDefs, r).c2]
MC_EnumName == [e \in MC_Enums |-> <<Def(EnumDefs, e).schema, Def(EnumDefs, e).name>>]
MC_GroupName == [g \in MC_Groups |-> Def(GroupDefs, g).name]
MC_RenameNames == {"n1"}
MC_RenameSchemas == {"public"}
MC_RenameAliases == {""}

Call(op, o, t, k, f, v) == [op |-> op, o |-> o, t |-> t, k |-> k, f |-> f, v |-> v]
OpSet ==
  {Call(op, o, 0, 0, "", "") : op \in {"add", "add_x", "delete", "delete_x"},
     o \in MC_Tables \cup MC_Refs \cup MC_Enums \cup MC_Groups \cup MC_Stickies \cup MC_Projects \cup MC_Junk}
MC_Ops == SetToSeq(OpSet)
MC_Deviations == {}
KeyPool == {sc \o "." \o n : sc \in MC_RenameSchemas, n \in MC_RenameNames} \cup (MC_RenameAliases \ {""})

Universe == [tables |-> TableDefs, cols |-> ColDefs, idxs |-> IdxDefs, refs |-> RefDefs,
             enums |-> EnumDefs, groups |-> GroupDefs, stickies |-> StickyDefs,
             projects |-> ProjectDefs, junk |-> JunkDefs, ops |-> MC_Ops, keypool |-> KeyPool,
             colnames |-> {ColDefs[i].name : i \in DOMAIN ColDefs}]

Bound == Len(s.notes) <= 3
EmitPathBounded == Bound => EmitPath
ASSUME PrintT(<<"UNIVERSE", ToJson(Universe)>>)
=============================================================================
