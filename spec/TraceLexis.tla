----------------------------- MODULE TraceLexis -----------------------------
(***************************************************************************)
(* Conformance of the real lexer / normaliser / renderer with Lexis.tla.   *)
(* One record per (text, site, route):                                     *)
(*   [tid, t, site, route, style, ok, stored, rest]                        *)
(* route "authored": the literal Write(style, t) was placed at the site of *)
(*        a host document and parsed; route "rendered": an object carrying *)
(*        t at the site was rendered to DBML and parsed back.              *)
(* ok     the parse returned a database                                    *)
(* stored the text found at the site afterwards                            *)
(* rest   everything else in the database is what the host declares        *)
(***************************************************************************)
EXTENDS Lexis, Json, IOUtils

Traces == ndJsonDeserialize(IOEnv.TRACE_FILE)

NoteSites == {"table_note", "column_note", "index_note", "enumitem_note", "group_note", "project_note", "sticky_note"}
\* sites whose literal is written inside an indented element and therefore drifts when multi-line
\* (known findings F-C02d, F-C15a, F-C02j; string defaults: F-C13c)
DriftSites == {"column_note", "index_note", "enumitem_note", "table_prop", "column_prop", "project_field", "string_default", "index_name"}

ExprSites == {"expr_default", "index_expr"}
InDomain(e) ==
  /\ e.site \in NoteSites => HasInk(e.t)
  /\ (e.site \in NoteSites /\ e.route = "sql") => Norm(e.t) = e.t
  \* an expression is one line of text without a backtick (it could not have been written otherwise)
  /\ e.site \in ExprSites => (e.t # <<>> /\ \A i \in DOMAIN e.t : e.t[i] \notin {LF, "`"})
  \* (the DDL reader separates index subjects at commas outside double quotes: it cannot read an expression with an unbalanced ")
  /\ e.site = "index_expr" => \A i \in DOMAIN e.t : e.t[i] # DQ
  /\ (e.site \in NoteSites /\ e.route = "rendered") => Norm(e.t) = e.t
  /\ e.site = "index_name" => e.t # <<>>

Expected(e) == IF e.site \in NoteSites /\ e.route = "authored" THEN Norm(e.t)
               ELSE IF e.site \in NoteSites /\ e.route = "sql" THEN SqlNote(e.t)     \* body of COMMENT ... IS '...'
               ELSE e.t                                                              \* expressions: verbatim inside ( )

DriftId(site) == CASE site \in {"column_note", "index_note", "enumitem_note"} -> "dev:F-C02d"
                    [] site \in {"table_prop", "column_prop"} -> "dev:F-C15a"
                    [] site = "project_field" -> "dev:F-C02j"
                    [] OTHER -> "dev:F-C13c"

Verdict(e) ==
  IF ~InDomain(e) THEN "out-of-domain"
  \* F-C02a: an empty string default is falsy and is not rendered
  ELSE IF e.route = "rendered" /\ e.site = "string_default" /\ e.t = <<>> /\ e.ok /\ e.rest THEN "dev:F-C02a"
  ELSE IF e.route = "sql" /\ ~e.ok THEN "the SQL script cannot be read back (a literal ends early?)"
  ELSE IF e.route = "sql" /\ e.site \in NoteSites /\ ~SqlNeutral(e.stored) THEN "bare single quote inside the SQL literal"
  ELSE IF ~e.ok THEN "text breaks its literal: parse fails"
  ELSE IF e.stored # Expected(e) THEN
       \* the known findings are accepted only in the exact form Lexis!AsBuiltDrift predicts
       (IF e.route = "rendered" /\ MultiLine(e.t) /\ e.site \in DriftSites /\ e.stored = AsBuiltDrift(e.site, e.t) THEN DriftId(e.site)
        ELSE "stored text differs")
  ELSE IF ~e.rest THEN "neighbouring elements altered"
  ELSE ""

VARIABLE ti
TInit == ti = 1
TNext == /\ ti <= Len(Traces)
         /\ PrintT(<<"VERDICT", Traces[ti].tid, Verdict(Traces[ti])>>)
         /\ ti' = ti + 1
=============================================================================
