---- MODULE MC_GenModel ----
EXTENDS GenModel
====
