----------------------------- MODULE Malformed -----------------------------
(***************************************************************************)
(* C07: malformed text is never accepted.                                  *)
(*                                                                         *)
(* A fault is an edit of the text of a well-formed document at a SITE.     *)
(* The harness prints a generated document in the canonical form, labels   *)
(* every line with its kind and the block that encloses it, applies every  *)
(* fault kind at every line, and parses.  ProvablyInvalid says for which   *)
(* (kind, site) pairs NO reading of the result as DBML exists -- a pair is *)
(* listed only if that is certain (e.g. a lone identifier is an error      *)
(* between elements and in a table body, but a new item in an enum or      *)
(* group body, so those pairs are not listed).  For every listed pair the  *)
(* only allowed outcome of the parse call is a syntax error; a returned    *)
(* database means that a fragment of a rejected document leaked through.   *)
(***************************************************************************)
EXTENDS Naturals, Sequences, TLC

\* blocks a line can be enclosed by
Ctxs == {"top", "table", "indexes", "enum", "group", "project", "ref", "note"}
\* kinds of printed lines
LineKinds == {"table_head", "column", "note_line", "note_head", "note_text", "indexes_head", "index", "close",
              "enum_head", "enum_item", "ref_short", "ref_head", "ref_body", "group_head", "group_item",
              "sticky_head", "project_head", "project_item", "prop_line", "blank", "string"}

FaultKinds == <<"illegal_char_line", "stray_identifier_line", "stray_comma_line", "delete_close_brace", "duplicate_close_brace",
                "delete_open_brace", "unterminated_string", "column_without_type", "unknown_setting", "unknown_index_type",
                "bad_ref_operator", "bad_action", "bad_colour", "text_after_close_brace", "delete_open_bracket", "delete_close_bracket",
                "duplicate_open_bracket", "duplicate_close_bracket",
                "empty_settings", "trailing_comma_in_settings", "missing_comma_in_settings", "missing_value", "ref_without_column",
                "keyword_typo", "junk_in_type_args", "exotic_space_line", "foreign_setting">>

\* site = [ctx, kind, feats] : the line the fault is applied to (insertions go BEFORE that line, in its block)
Has(site, f) == \E i \in DOMAIN site.feats : site.feats[i] = f

ProvablyInvalid(fault, site) ==
  CASE site.kind = "string" -> FALSE                       \* inside a multi-line literal everything is text
    [] fault = "illegal_char_line" -> TRUE                 \* @ % ; are no DBML tokens, on a line of their own
    [] fault = "stray_comma_line" -> TRUE
    \* DBML's white space is blank, tab, CR and LF; every other character Unicode calls a space (form feed, vertical tab, NBSP,
    \* U+2028, U+3000, U+0085 ...) is a stray token wherever it stands outside a literal or a comment
    [] fault = "exotic_space_line" -> TRUE
    [] fault = "stray_identifier_line" -> site.ctx \in {"top", "table", "project", "ref", "note"}
    [] fault = "delete_close_brace" -> site.kind = "close"
    [] fault = "duplicate_close_brace" -> site.kind = "close"
    [] fault = "text_after_close_brace" -> site.kind = "close"
    [] fault = "delete_open_brace" -> Has(site, "open_brace")
    [] fault = "unterminated_string" -> Has(site, "one_single_quoted_string")
    [] fault = "column_without_type" -> site.kind = "column"
    [] fault = "unknown_setting" -> site.kind \in {"column", "index", "table_head", "group_head", "ref_short", "ref_body"} /\ Has(site, "settings")
    \* each kind of element has its own settings: a setting of another kind (color: in a table header, headercolor: in a
    \* group, pk in a reference, type: in a column ...) is as unknown there as any other word
    [] fault = "foreign_setting" -> site.kind \in {"column", "index", "table_head", "group_head", "ref_short", "ref_body"} /\ Has(site, "settings")
    [] fault = "unknown_index_type" -> Has(site, "index_type")
    [] fault = "bad_ref_operator" -> site.kind \in {"ref_short", "ref_body"}
    [] fault = "bad_action" -> Has(site, "action")
    [] fault = "bad_colour" -> Has(site, "colour")
    [] fault = "delete_open_bracket" -> Has(site, "settings")
    [] fault = "delete_close_bracket" -> Has(site, "settings")
    \* brackets never nest in DBML outside literals: one more of either kind, anywhere a bracket stands, is unreadable
    [] fault = "duplicate_open_bracket" -> Has(site, "brackets_outside_literals")
    [] fault = "duplicate_close_bracket" -> Has(site, "brackets_outside_literals")
    \* a settings list holds at least one setting, settings are separated by exactly one comma, `key:` needs a value
    [] fault = "empty_settings" -> Has(site, "settings")
    [] fault = "trailing_comma_in_settings" -> Has(site, "settings")
    [] fault = "missing_comma_in_settings" -> Has(site, "two_settings")
    [] fault = "missing_value" -> Has(site, "keyed_setting")
    \* both sides of a relationship name table AND column
    [] fault = "ref_without_column" -> site.kind \in {"ref_short", "ref_body"}
    \* the words that open an element are fixed
    [] fault = "keyword_typo" -> site.kind \in {"table_head", "enum_head", "group_head", "project_head", "ref_head", "ref_short", "sticky_head", "indexes_head"}
    \* the arguments of a type are numbers, names and quoted text: @ ? % = ] are no part of any of them
    [] fault = "junk_in_type_args" -> site.kind = "column" /\ Has(site, "type_args")
    [] OTHER -> FALSE

\* the only outcome a parse of a provably invalid text may have
Allowed(outcome) == outcome = "ParseBaseException"
=============================================================================
