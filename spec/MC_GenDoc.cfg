CONSTANTS
  SeedLo = 1
  SeedHi = 300
  WithProps = FALSE
  WithComments = FALSE
INIT Init
NEXT Next
INVARIANT DesignFaithful
INVARIANT DesignLinked
INVARIANT DesignOptionNeutral
INVARIANT Emit
CHECK_DEADLOCK FALSE
