CONSTANTS
  SeedLo = 1
  SeedHi = 300
  WithProps = FALSE
INIT Init
NEXT Next
INVARIANT DesignFaithful
INVARIANT DesignLinked
INVARIANT DesignOptionNeutral
INVARIANT Emit
CHECK_DEADLOCK FALSE
