---- MODULE MC_Invalid ----
EXTENDS Invalid, SequencesExt
ASSUME PrintT(<<"F", SetToSeq(Flavours)>>)
====
