---- MODULE MC_Invalid ----
EXTENDS Invalid
====
