CONSTANTS
  SeedLo = 1
  SeedHi = 1
  WithProps = FALSE
  WithComments = FALSE
  MaxEdits = 1
INIT TInit
NEXT TNext
CHECK_DEADLOCK FALSE
