CONSTANT MaxLen = 1
INIT TInit
NEXT TNext
CHECK_DEADLOCK FALSE
