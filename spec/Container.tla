--------------------------- MODULE Container ---------------------------
(***************************************************************************)
(* pydbml.database.Database and pydbml.classes.Table as containers.        *)
(*                                                                         *)
(* One operator per public method, shaped like the code: check, then       *)
(* mutate.  The state is ONE record `s` so that the same step function is  *)
(* used (a) by TLC to explore the complete reachable graph of a finite     *)
(* universe of objects, and (b) by TraceContainer.tla to decide whether a  *)
(* (pre, call, post) triple recorded from the real objects is a step.      *)
(*                                                                         *)
(* Objects are small naturals.  What the library compares with __eq__ is   *)
(* modelled by Eq* below (structural, exactly as SQLObject.__eq__ with     *)
(* dont_compare_fields; identity for Project / TableGroup / StickyNote).   *)
(***************************************************************************)
EXTENDS Naturals, Sequences, FiniteSets, TLC, SequencesExt

CONSTANTS
  Tables, Cols, Idxs, Refs, Enums, Groups, Stickies, Projects, Junk,
      \* pairwise disjoint finite sets of object ids (naturals > 0)
  TableInit,   \* [Tables -> [name, schema, alias, sig, cols, idxs]]  alias "" = no alias
  ColSig,      \* [Cols -> STRING]   everything Column.__eq__ compares except the owner
  ColName,     \* [Cols -> STRING]
  IdxSig,      \* [Idxs -> STRING]   everything Index.__eq__ compares except subjects/owner
  IdxSubj,     \* [Idxs -> Seq(Cols \cup {0})]   0 = an expression subject
  RefSig,      \* [Refs -> STRING]   type, name, comment, actions (not inline-ness)
  RefC1, RefC2,\* [Refs -> Seq(Cols)]
  EnumName,    \* [Enums -> <<schema, name>>]
  GroupName,   \* [Groups -> STRING]
  RenameNames, RenameSchemas, RenameAliases,   \* value pools of the Rename action
  Ops,         \* the sequence of calls explored by Next (records, see Step)
  Deviations   \* ids of as-built deviations switched on (empty = intended behaviour)

None == 0
NoAlias == ""

TopObjects == Tables \cup Refs \cup Enums \cup Groups \cup Stickies \cup Projects

FullName(a) == a.schema \o "." \o a.name

(***************************************************************************)
(* Sequence helpers                                                        *)
(***************************************************************************)
\* Range (Functions) and RemoveAt (SequencesExt) come from the CommunityModules
FirstIdx(q, P(_)) == IF \E i \in DOMAIN q : P(q[i])
                     THEN CHOOSE i \in DOMAIN q : P(q[i]) /\ \A j \in 1..(i - 1) : ~P(q[j])
                     ELSE 0
IsSubSeq(small, big) ==   \* small is obtained from big by deleting elements
  \E f \in [DOMAIN small -> DOMAIN big] :
      /\ \A i \in DOMAIN small : small[i] = big[f[i]]
      /\ \A i, j \in DOMAIN small : i < j => f[i] < f[j]

(***************************************************************************)
(* Initial state                                                           *)
(***************************************************************************)
InitState ==
  [ tables  |-> <<>>,
    tdict   |-> {},            \* set of <<key, table id>>
    refs    |-> <<>>, enums |-> <<>>, groups |-> <<>>, notes |-> <<>>,
    project |-> None,
    own     |-> [o \in TopObjects |-> FALSE],      \* o.database is this database
    attr    |-> [t \in Tables |-> [name |-> TableInit[t].name, schema |-> TableInit[t].schema,
                                   alias |-> TableInit[t].alias]],
    cols    |-> [t \in Tables |-> TableInit[t].cols],
    idxs    |-> [t \in Tables |-> TableInit[t].idxs],
    ctab    |-> [c \in Cols |-> IF \E t \in Tables : c \in Range(TableInit[t].cols)
                                THEN CHOOSE t \in Tables : c \in Range(TableInit[t].cols) ELSE None],
    itab    |-> [i \in Idxs |-> IF \E t \in Tables : i \in Range(TableInit[t].idxs)
                                THEN CHOOSE t \in Tables : i \in Range(TableInit[t].idxs) ELSE None],
    out     |-> "ok" ]

(***************************************************************************)
(* Structural equality, as the code compares                               *)
(***************************************************************************)
OwnerName(s, c) == IF s.ctab[c] = None THEN "<none>" ELSE FullName(s.attr[s.ctab[c]])

EqCol(s, c, d) == c = d \/ (OwnerName(s, c) = OwnerName(s, d) /\ ColSig[c] = ColSig[d])

EqColSeq(s, p, q) == Len(p) = Len(q) /\ \A i \in DOMAIN p : EqCol(s, p[i], q[i])

EqSubj(s, x, y) == IF x = 0 \/ y = 0 THEN x = y ELSE EqCol(s, x, y)

EqIdx(s, i, j) == /\ IdxSig[i] = IdxSig[j]
                  /\ Len(IdxSubj[i]) = Len(IdxSubj[j])
                  /\ \A k \in DOMAIN IdxSubj[i] : EqSubj(s, IdxSubj[i][k], IdxSubj[j][k])

EqTable(s, a, b) ==
  \/ a = b
  \/ /\ s.attr[a] = s.attr[b]
     /\ TableInit[a].sig = TableInit[b].sig
     /\ EqColSeq(s, s.cols[a], s.cols[b])
     /\ Len(s.idxs[a]) = Len(s.idxs[b])
     /\ \A k \in DOMAIN s.idxs[a] : EqIdx(s, s.idxs[a][k], s.idxs[b][k])

EqRef(s, a, b) == \/ a = b
                  \/ /\ RefSig[a] = RefSig[b]
                     /\ EqColSeq(s, RefC1[a], RefC1[b])
                     /\ EqColSeq(s, RefC2[a], RefC2[b])

\* Enum.__eq__ also compares `database` (no excluded field): inside one database a
\* contained enum equals only itself; two free enums compare by content, which no
\* container operation ever asks for.
EqEnum(s, a, b) == a = b

KeysOf(a) == {FullName(a)} \cup (IF a.alias = NoAlias THEN {} ELSE {a.alias})
DictKeys(s) == {p[1] : p \in s.tdict}

(***************************************************************************)
(* Database operations                                                     *)
(***************************************************************************)
Reject(s, cls) == [s EXCEPT !.out = cls]
DVE == "DatabaseValidationError"

AddTable(s, o) ==
  IF \E i \in DOMAIN s.tables : EqTable(s, s.tables[i], o) THEN Reject(s, DVE)
  ELSE IF FullName(s.attr[o]) \in DictKeys(s) THEN Reject(s, DVE)
  ELSE IF s.attr[o].alias # NoAlias /\ s.attr[o].alias \in DictKeys(s) THEN Reject(s, DVE)
  ELSE [s EXCEPT !.tables = Append(@, o),
                 !.tdict = @ \cup {<<k, o>> : k \in KeysOf(s.attr[o])},
                 !.own[o] = TRUE,
                 !.out = "ok"]

DeleteTable(s, o) ==
  LET k == FirstIdx(s.tables, LAMBDA x : EqTable(s, x, o)) IN
  IF k = 0 THEN Reject(s, DVE)
  ELSE LET victim == s.tables[k] IN
       [s EXCEPT !.tables = RemoveAt(@, k),
                 !.tdict = {p \in @ : p[2] # victim},
                 !.own[victim] = FALSE,
                 !.out = "ok"]

RefTouchesDb(s, r) ==
  \E i \in DOMAIN (RefC1[r] \o RefC2[r]) :
      LET c == (RefC1[r] \o RefC2[r])[i] IN s.ctab[c] # None /\ s.own[s.ctab[c]]

AddRef(s, o) ==
  IF ~RefTouchesDb(s, o) THEN Reject(s, DVE)
  ELSE IF \E i \in DOMAIN s.refs : EqRef(s, s.refs[i], o) THEN Reject(s, DVE)
  ELSE [s EXCEPT !.refs = Append(@, o), !.own[o] = TRUE, !.out = "ok"]

DeleteRef(s, o) ==
  LET k == FirstIdx(s.refs, LAMBDA x : EqRef(s, x, o)) IN
  IF k = 0 THEN Reject(s, DVE)
  ELSE [s EXCEPT !.refs = RemoveAt(@, k), !.own[s.refs[k]] = FALSE, !.out = "ok"]

AddEnum(s, o) ==
  IF \E i \in DOMAIN s.enums : EqEnum(s, s.enums[i], o) THEN Reject(s, DVE)
  ELSE IF \E i \in DOMAIN s.enums : EnumName[s.enums[i]] = EnumName[o] THEN Reject(s, DVE)
  ELSE [s EXCEPT !.enums = Append(@, o), !.own[o] = TRUE, !.out = "ok"]

DeleteEnum(s, o) ==
  LET k == FirstIdx(s.enums, LAMBDA x : EqEnum(s, x, o)) IN
  IF k = 0 THEN Reject(s, DVE)
  ELSE [s EXCEPT !.enums = RemoveAt(@, k), !.own[s.enums[k]] = FALSE, !.out = "ok"]

AddGroup(s, o) ==
  IF o \in Range(s.groups) THEN Reject(s, DVE)
  ELSE IF \E i \in DOMAIN s.groups : GroupName[s.groups[i]] = GroupName[o] THEN Reject(s, DVE)
  ELSE [s EXCEPT !.groups = Append(@, o), !.own[o] = TRUE, !.out = "ok"]

DeleteGroup(s, o) ==
  LET k == FirstIdx(s.groups, LAMBDA x : x = o) IN
  IF k = 0 THEN Reject(s, DVE)
  ELSE [s EXCEPT !.groups = RemoveAt(@, k), !.own[o] = FALSE, !.out = "ok"]

AddSticky(s, o) ==   \* no check in the code: a note may be added repeatedly
  [s EXCEPT !.notes = Append(@, o), !.own[o] = TRUE, !.out = "ok"]

AddProject(s, o) ==  \* replaces and detaches the old project
  LET s1 == IF s.project # None THEN [s EXCEPT !.own[s.project] = FALSE] ELSE s IN
  [s1 EXCEPT !.project = o, !.own[o] = TRUE, !.out = "ok"]

DeleteProjectNoArg(s) ==
  IF s.project = None THEN Reject(s, DVE)
  ELSE [s EXCEPT !.project = None, !.own[s.project] = FALSE, !.out = "ok"]

DeleteProjectObj(s, o) ==   \* Database.delete(project object)
  IF "F-C09b" \in Deviations
  THEN DeleteProjectNoArg(s)                 \* as built: the argument is ignored
  ELSE IF s.project # o THEN Reject(s, DVE)  \* deleting something absent
       ELSE DeleteProjectNoArg(s)

(***************************************************************************)
(* Rename = plain attribute assignment on a table; nothing can refuse it.  *)
(* Intended: lookup follows the current names.                             *)
(***************************************************************************)
WithAttr(a, field, v) ==
  CASE field = "name"   -> [a EXCEPT !.name = v]
    [] field = "schema" -> [a EXCEPT !.schema = v]
    [] field = "alias"  -> [a EXCEPT !.alias = v]

Contained(s, t) == t \in Range(s.tables)

\* History domain (DESIGN 4.6): a rename of a contained table must not make its keys
\* collide with another contained table's keys, nor its alias with its own full name.
RenameInDomain(s, t, field, v) ==
  LET a == WithAttr(s.attr[t], field, v) IN
  Contained(s, t) =>
      /\ \A u \in Range(s.tables) \ {t} : KeysOf(a) \cap KeysOf(s.attr[u]) = {}
      /\ a.alias # FullName(a)

Rename(s, t, field, v) ==
  LET a == WithAttr(s.attr[t], field, v) IN
  IF Contained(s, t) /\ "F-C09a" \notin Deviations
  THEN [s EXCEPT !.attr[t] = a,
                 !.tdict = {p \in @ : p[2] # t} \cup {<<k, t>> : k \in KeysOf(a)},
                 !.out = "ok"]
  ELSE [s EXCEPT !.attr[t] = a, !.out = "ok"]   \* free table, or as built: index left stale

(***************************************************************************)
(* Table-level operations                                                  *)
(***************************************************************************)
AddColumn(s, t, c) ==
  IF c \notin Cols THEN Reject(s, "TypeError")
  ELSE [s EXCEPT !.cols[t] = Append(@, c), !.ctab[c] = t, !.out = "ok"]

DeleteColumnObj(s, t, c) ==
  IF c \notin Cols THEN [s EXCEPT !.out = "ok"]   \* neither Column nor int: the code falls through, no effect
  ELSE
  LET k == FirstIdx(s.cols[t], LAMBDA x : EqCol(s, x, c)) IN
  IF k = 0 THEN Reject(s, "ColumnNotFoundError")
  ELSE LET victim == s.cols[t][k] IN
       [s EXCEPT !.cols[t] = RemoveAt(@, k), !.ctab[victim] = None, !.out = "ok"]

DeleteColumnPos(s, t, k) ==
  [s EXCEPT !.cols[t] = RemoveAt(@, k), !.ctab[s.cols[t][k]] = None, !.out = "ok"]

AddIndex(s, t, i) ==
  IF i \notin Idxs THEN Reject(s, "TypeError")
  ELSE IF \E k \in DOMAIN IdxSubj[i] : IdxSubj[i][k] # 0 /\ s.ctab[IdxSubj[i][k]] # t
       THEN Reject(s, "ColumnNotFoundError")
  ELSE [s EXCEPT !.idxs[t] = Append(@, i), !.itab[i] = t, !.out = "ok"]

DeleteIndexObj(s, t, i) ==
  IF i \notin Idxs THEN [s EXCEPT !.out = "ok"]   \* neither Index nor int: falls through, no effect
  ELSE
  LET k == FirstIdx(s.idxs[t], LAMBDA x : EqIdx(s, x, i)) IN
  IF k = 0 THEN Reject(s, "IndexNotFoundError")
  ELSE LET victim == s.idxs[t][k] IN
       [s EXCEPT !.idxs[t] = RemoveAt(@, k), !.itab[victim] = None, !.out = "ok"]

DeleteIndexPos(s, t, k) ==
  [s EXCEPT !.idxs[t] = RemoveAt(@, k), !.itab[s.idxs[t][k]] = None, !.out = "ok"]

(***************************************************************************)
(* Dispatch: a call is a record [op, o, t, k, f, v]; unused fields are 0/""*)
(***************************************************************************)
KindOf(o) == CASE o \in Tables -> "table" [] o \in Refs -> "ref" [] o \in Enums -> "enum"
               [] o \in Groups -> "group" [] o \in Stickies -> "sticky"
               [] o \in Projects -> "project" [] OTHER -> "junk"

AddAny(s, o) ==
  CASE KindOf(o) = "table" -> AddTable(s, o)   [] KindOf(o) = "ref" -> AddRef(s, o)
    [] KindOf(o) = "enum" -> AddEnum(s, o)     [] KindOf(o) = "group" -> AddGroup(s, o)
    [] KindOf(o) = "sticky" -> AddSticky(s, o) [] KindOf(o) = "project" -> AddProject(s, o)
    [] OTHER -> Reject(s, DVE)

DeleteAny(s, o) ==
  CASE KindOf(o) = "table" -> DeleteTable(s, o) [] KindOf(o) = "ref" -> DeleteRef(s, o)
    [] KindOf(o) = "enum" -> DeleteEnum(s, o)   [] KindOf(o) = "group" -> DeleteGroup(s, o)
    [] KindOf(o) = "project" -> DeleteProjectObj(s, o)
    [] OTHER -> Reject(s, DVE)      \* sticky notes and foreign objects: unsupported type

\* "add"/"delete" go through Database.add / Database.delete; "add_x"/"delete_x" call
\* the typed method directly.  Both must behave alike.
Step(s, c) ==
  CASE c.op \in {"add", "add_x"}       -> AddAny(s, c.o)
    [] c.op = "delete"                 -> DeleteAny(s, c.o)
    [] c.op = "delete_x" /\ KindOf(c.o) = "project" -> DeleteProjectNoArg(s)
    [] c.op = "delete_x"               -> DeleteAny(s, c.o)
    [] c.op = "rename"                 -> Rename(s, c.t, c.f, c.v)
    [] c.op = "add_column"             -> AddColumn(s, c.t, c.o)
    [] c.op = "delete_column"          -> DeleteColumnObj(s, c.t, c.o)
    [] c.op = "delete_column_pos"      -> DeleteColumnPos(s, c.t, c.k)
    [] c.op = "add_index"              -> AddIndex(s, c.t, c.o)
    [] c.op = "delete_index"           -> DeleteIndexObj(s, c.t, c.o)
    [] c.op = "delete_index_pos"       -> DeleteIndexPos(s, c.t, c.k)

\* Which calls belong to the history domain in state s (DESIGN 4.6).
InDomain(s, c) ==
  CASE c.op = "rename"            -> RenameInDomain(s, c.t, c.f, c.v)
    [] c.op = "add_column"        -> c.o \in Cols => s.ctab[c.o] = None
    [] c.op = "add_index"         -> c.o \in Idxs => s.itab[c.o] = None
    [] c.op = "delete_column_pos" -> c.k \in DOMAIN s.cols[c.t]
    [] c.op = "delete_index_pos"  -> c.k \in DOMAIN s.idxs[c.t]
    [] OTHER -> TRUE

(***************************************************************************)
(* The state machine explored by TLC.  `path` is a history variable hidden *)
(* by the VIEW: for every distinct state TLC keeps one shortest call       *)
(* sequence that reaches it, which the harness replays on real objects.    *)
(***************************************************************************)
VARIABLES s, path
vars == <<s, path>>

Init == s = InitState /\ path = <<>>
Next == \E k \in DOMAIN Ops : InDomain(s, Ops[k]) /\ s' = Step(s, Ops[k]) /\ path' = Append(path, k)
\* emitted once per distinct state (TLC evaluates invariants on new states only)
EmitPath == PrintT(<<"P", path>>)
\* -simulate: TLC evaluates invariants on every successor, so each walk of length WalkLen is
\* printed once, complete
WalkLen == 30
EmitWalk == Len(path) = WalkLen => PrintT(<<"W", path>>)
Spec == Init /\ [][Next]_vars
View == s

(***************************************************************************)
(* What the user relies on (C09), stated declaratively                     *)
(***************************************************************************)
TypeOK ==
  /\ Range(s.tables) \subseteq Tables /\ Range(s.refs) \subseteq Refs
  /\ Range(s.enums) \subseteq Enums /\ Range(s.groups) \subseteq Groups
  /\ Range(s.notes) \subseteq Stickies /\ s.project \in Projects \cup {None}

\* lookup by full name or alias finds exactly the contained tables under their current names
ListDictAgree ==
  s.tdict = UNION {{<<k, t>> : k \in KeysOf(s.attr[t])} : t \in Range(s.tables)}

KeysDisjoint ==
  \A i, j \in DOMAIN s.tables : i # j =>
      KeysOf(s.attr[s.tables[i]]) \cap KeysOf(s.attr[s.tables[j]]) = {}

NoDuplicates ==
  /\ \A i, j \in DOMAIN s.tables : s.tables[i] = s.tables[j] => i = j
  /\ \A i, j \in DOMAIN s.refs : s.refs[i] = s.refs[j] => i = j
  /\ \A i, j \in DOMAIN s.enums : s.enums[i] = s.enums[j] => i = j
  /\ \A i, j \in DOMAIN s.groups : s.groups[i] = s.groups[j] => i = j

ContainedSet(x) == Range(x.tables) \cup Range(x.refs) \cup Range(x.enums) \cup Range(x.groups)
                   \cup Range(x.notes) \cup (IF x.project = None THEN {} ELSE {x.project})

\* every contained object points back to the database, every other one to nothing
Owned == \A o \in TopObjects : s.own[o] <=> o \in ContainedSet(s)

\* one level down: a column/index is listed by exactly the table it points to, once
MembersOwned ==
  /\ \A c \in Cols : \A t \in Tables :
        Cardinality({i \in DOMAIN s.cols[t] : s.cols[t][i] = c}) = (IF s.ctab[c] = t THEN 1 ELSE 0)
  /\ \A x \in Idxs : \A t \in Tables :
        Cardinality({i \in DOMAIN s.idxs[t] : s.idxs[t][i] = x}) = (IF s.itab[x] = t THEN 1 ELSE 0)

\* an index never sits in a table that does not own all its column subjects at add time;
\* checked as an action property below (ForeignIndexRefused)

NameClashFree ==
  /\ \A i, j \in DOMAIN s.enums : i # j => EnumName[s.enums[i]] # EnumName[s.enums[j]]
  /\ \A i, j \in DOMAIN s.groups : i # j => GroupName[s.groups[i]] # GroupName[s.groups[j]]

Changed(a, b) == [a EXCEPT !.out = "ok"] # [b EXCEPT !.out = "ok"]

\* algebra of the container: an accepted add followed by the delete of the same object restores the container exactly
\* (not for a sticky note -- there is no delete for it -- nor for a project that replaced another one), and an accepted
\* delete of a table or enum followed by the add of the same object is accepted again
AddThenDeleteRestores ==
  \A o \in Tables \cup Refs \cup Enums \cup Groups \cup Projects :
     LET a == AddAny(s, o) IN
     (a.out = "ok" /\ ~(o \in Projects /\ s.project # None)) =>
        LET d == DeleteAny(a, o) IN d.out = "ok" /\ ~Changed(d, s)
\* (tables and enums only: a reference is re-admitted only while both its tables are still contained -- TLC refuted the
\* law for references in the state reached by deleting a table under a reference)
DeleteThenAddReadmits ==
  \A o \in Tables \cup Enums :
     LET d == DeleteAny(s, o) IN
     d.out = "ok" => AddAny(d, o).out = "ok"

\* a rejected call leaves everything exactly as it was
RejectedIsNoop == [][s'.out # "ok" => ~Changed(s, s')]_vars

\* insertion order: an add appends, a delete removes one element, nothing else moves
OrderKept ==
  [][ /\ IsSubSeq(s.tables, s'.tables) \/ IsSubSeq(s'.tables, s.tables)
      /\ IsSubSeq(s.refs, s'.refs) \/ IsSubSeq(s'.refs, s.refs)
      /\ IsSubSeq(s.enums, s'.enums) \/ IsSubSeq(s'.enums, s.enums)
      /\ IsSubSeq(s.groups, s'.groups) \/ IsSubSeq(s'.groups, s.groups)
      /\ IsSubSeq(s.notes, s'.notes) \/ IsSubSeq(s'.notes, s.notes)
      /\ \A t \in Tables : IsSubSeq(s.cols[t], s'.cols[t]) \/ IsSubSeq(s'.cols[t], s.cols[t])
      /\ \A t \in Tables : IsSubSeq(s.idxs[t], s'.idxs[t]) \/ IsSubSeq(s'.idxs[t], s.idxs[t]) ]_vars

\* setting a new project detaches the old one
ProjectReplaced ==
  [][ (s.project # None /\ s'.project # s.project) => ~s'.own[s.project] ]_vars

\* an index over a column of another table is never accepted: whenever a table's index list
\* grows, every column subject of the new index is owned by that table at that moment
ForeignIndexRefused ==
  [][ \A t \in Tables : Len(s'.idxs[t]) > Len(s.idxs[t]) =>
         LET i == s'.idxs[t][Len(s'.idxs[t])] IN
         \A j \in DOMAIN IdxSubj[i] : IdxSubj[i][j] # 0 => s.ctab[IdxSubj[i][j]] = t ]_vars
=============================================================================
