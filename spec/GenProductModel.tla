-------------------------- MODULE GenProductModel --------------------------
(***************************************************************************)
(* The per-element feature products of GenProduct together with their      *)
(* models, for the renderer checks (C02 round trip, C03/C04/C18 SQL, C05   *)
(* links): the same exhaustive cross products that C01 parses are also     *)
(* rendered.  Design level: the renderer design composed with the parser   *)
(* model round-trips each product and is a fixpoint on it.                 *)
(***************************************************************************)
EXTENDS GenProduct, DbmlOut
PModel == ParseDoc(PDoc, TRUE)
ProductRoundTrip == PUsable => RoundTripButRefOrder(PModel) /\ FixpointHolds(PModel)
EmitProductModel == PUsable => PrintT(<<"DOC", seed, ToJson([doc |-> PDoc, model |-> PModel, reforder |-> RefOrderKept(PModel)])>>)
=============================================================================
