INIT TInit
NEXT TNext
CHECK_DEADLOCK FALSE
