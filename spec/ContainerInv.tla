---------------------------- MODULE ContainerInv ----------------------------
(***************************************************************************)
(* The C09 invariants and action properties of Container.tla restated over *)
(* an OPEN universe: object ids are whatever the recorder assigned, and a  *)
(* state is the projection of one real Database together with the objects  *)
(* that were ever handed to it.  Used to validate executions that the      *)
(* specification did not choose: the repository's own test-suite and the   *)
(* parser's phase-2 schedule, recorded by wrapping the public container    *)
(* methods at run time.                                                    *)
(*                                                                         *)
(* state  [tables, refs, enums, groups, notes : Seq(Id), project : Id|0,   *)
(*         tdict : Seq(<<key, Id>>), own : Seq(<<Id, BOOLEAN>>),           *)
(*         attr : Seq([id, full, alias]),                                  *)
(*         cols, idxs : Seq(<<TableId, Seq(Id)>>),                         *)
(*         ctab, itab : Seq(<<Id, TableId|0>>)]                            *)
(* event  [call, outcome, pre, post]                                       *)
(***************************************************************************)
EXTENDS Naturals, Sequences, FiniteSets, TLC

Rng(q) == {q[i] : i \in DOMAIN q}
Lookup(pairs, k, dflt) == IF \E i \in DOMAIN pairs : pairs[i][1] = k
                          THEN pairs[CHOOSE i \in DOMAIN pairs : pairs[i][1] = k][2] ELSE dflt
AttrOf(s, t) == CHOOSE a \in Rng(s.attr) : a.id = t
KeysOfT(s, t) == {AttrOf(s, t).full} \cup (IF AttrOf(s, t).alias = "" THEN {} ELSE {AttrOf(s, t).alias})
Contained(s) == Rng(s.tables) \cup Rng(s.refs) \cup Rng(s.enums) \cup Rng(s.groups) \cup Rng(s.notes)
                \cup (IF s.project = 0 THEN {} ELSE {s.project})

ListDictAgree(s) == Rng(s.tdict) = UNION {{<<k, t>> : k \in KeysOfT(s, t)} : t \in Rng(s.tables)}
KeysDisjoint(s) == \A i, j \in DOMAIN s.tables : i # j => KeysOfT(s, s.tables[i]) \cap KeysOfT(s, s.tables[j]) = {}
NoDuplicates(s) == /\ Cardinality(Rng(s.tables)) = Len(s.tables) /\ Cardinality(Rng(s.refs)) = Len(s.refs)
                   /\ Cardinality(Rng(s.enums)) = Len(s.enums) /\ Cardinality(Rng(s.groups)) = Len(s.groups)
Owned(s) == \A i \in DOMAIN s.own : s.own[i][2] <=> s.own[i][1] \in Contained(s)
MembersOwned(s) ==
  /\ \A i \in DOMAIN s.ctab : \A j \in DOMAIN s.cols :
        Cardinality({k \in DOMAIN s.cols[j][2] : s.cols[j][2][k] = s.ctab[i][1]}) = (IF s.ctab[i][2] = s.cols[j][1] THEN 1 ELSE 0)
  /\ \A i \in DOMAIN s.itab : \A j \in DOMAIN s.idxs :
        Cardinality({k \in DOMAIN s.idxs[j][2] : s.idxs[j][2][k] = s.itab[i][1]}) = (IF s.itab[i][2] = s.idxs[j][1] THEN 1 ELSE 0)

StateClauses(s) == << <<"ListDictAgree", ListDictAgree(s)>>, <<"KeysDisjoint", KeysDisjoint(s)>>, <<"NoDuplicates", NoDuplicates(s)>>,
                      <<"Owned", Owned(s)>>, <<"MembersOwned", MembersOwned(s)>> >>

RECURSIVE SubFrom(_, _, _, _)
SubFrom(small, big, i, j) == IF i > Len(small) THEN TRUE ELSE IF j > Len(big) THEN FALSE
                             ELSE IF small[i] = big[j] THEN SubFrom(small, big, i + 1, j + 1) ELSE SubFrom(small, big, i, j + 1)
IsSubSeq(small, big) == SubFrom(small, big, 1, 1)      \* greedy matching decides "is a subsequence of"
Monotone(a, b) == IsSubSeq(a, b) \/ IsSubSeq(b, a)

\* an operation that is refused leaves the container exactly as it was; an accepted one moves nothing else
StepClauses(e) ==
  << <<"RejectedIsNoop", e.outcome = "ok" \/ e.pre = e.post>>,
     <<"OrderKept", /\ Monotone(e.pre.tables, e.post.tables) /\ Monotone(e.pre.refs, e.post.refs)
                    /\ Monotone(e.pre.enums, e.post.enums) /\ Monotone(e.pre.groups, e.post.groups)
                    /\ Monotone(e.pre.notes, e.post.notes)>>,
     <<"ProjectReplaced", (e.pre.project # 0 /\ e.post.project # e.pre.project) => ~Lookup(e.post.own, e.pre.project, FALSE)>>,
     \* only the library's own errors may refuse a container operation
     <<"ErrorClass", e.outcome \in {"ok", "DatabaseValidationError", "ColumnNotFoundError", "IndexNotFoundError", "TypeError", "TableNotFoundError", "ValidationError"}>> >>

FirstFalse(cl) == LET bad == {i \in DOMAIN cl : ~cl[i][2]} IN IF bad = {} THEN "" ELSE cl[CHOOSE i \in bad : \A j \in bad : i <= j][1]
=============================================================================
