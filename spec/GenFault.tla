------------------------------ MODULE GenFault ------------------------------
(***************************************************************************)
(* C06: otherwise well-formed documents into which exactly ONE violation   *)
(* of a container/resolution rule is injected, at a sd-dependent         *)
(* position and in a sd-dependent spelling.  TLC checks at design level  *)
(* that the operational parser model answers every such document with the  *)
(* error class that belongs to the violated rule (Ruled).                  *)
(***************************************************************************)
EXTENDS GenDoc

FaultKinds == <<"DupTable", "DupAlias", "AliasIsKey", "DupEnum", "DupGroup", "DupGroupItem", "DupRef",
                "DupRefInline", "DupInlineTwice", "EmptyTable", "RefNoTableAtAll", "GroupNoTableAtAll", "RefNoTable", "RefNoColumn", "IdxNoColumn", "GroupNoTable">>

RuleClass(k) ==
  CASE k \in {"DupTable", "DupAlias", "AliasIsKey", "DupEnum", "DupGroup", "DupRef", "DupRefInline", "DupInlineTwice"} -> DVE
    [] k = "DupGroupItem" -> "ValidationError"
    [] k = "EmptyTable" -> "SyntaxError"
    [] k \in {"RefNoTable", "GroupNoTable", "RefNoTableAtAll", "GroupNoTableAtAll"} -> "TableNotFoundError"
    [] k \in {"RefNoColumn", "IdxNoColumn"} -> "ColumnNotFoundError"

\* letter case folded for the pool's column names (TLC strings are atomic: a table, not a function on characters)
Fold(n) == CASE n \in {"id", "ID", "Id", "iD"} -> "id" [] n \in {"name", "NAME", "Name"} -> "name" [] n \in {"type", "TYPE", "Type"} -> "type"
             [] n \in {"note", "NOTE", "Note"} -> "note" [] n \in {"pk", "PK", "Pk"} -> "pk" [] n \in {"Ref", "REF", "ref"} -> "ref" [] OTHER -> n
Where(doc, k) == Idxs(doc, LAMBDA x : x.d = k)      \* positions of the declarations of one kind
PickPos(sd, key, q) == q[(H(sd, key) % Len(q)) + 1]
InsertSomewhere(sd, doc, x) == InsertAt(doc, (H(sd, 901) % (Len(doc) + 1)) + 1, x)

MinCol == [name |-> "zz_c", type |-> [schema |-> "", name |-> "int", suffix |-> ""], pk |-> FALSE, unique |-> FALSE,
           notnull |-> FALSE, autoinc |-> FALSE, default |-> [k |-> "none", v |-> ""], note |-> "", props |-> <<>>,
           comment |-> "", refs |-> <<>>]
NewTable(schema, name, alias, cols) ==
  [d |-> "table", schema |-> schema, name |-> name, alias |-> alias, color |-> "", note |-> "", props |-> <<>>,
   comment |-> "", cols |-> cols, idxs |-> <<>>]

\* another admissible spelling of the same table address
Respell(sd, key, tabs, a) ==
  LET t == Locate(tabs, a.schema, a.table, FALSE)
      mode == H(sd, key) % 3
  IN IF t = 0 THEN a
     ELSE IF mode = 0 /\ tabs[t].alias # "" /\ ByFull(tabs, "public", tabs[t].alias) = 0
          THEN [schema |-> "", table |-> tabs[t].alias]
     ELSE IF mode = 1 /\ SchemaOf(tabs[t].schema) = "public" /\ ByAlias(tabs, tabs[t].name) = 0
          THEN [schema |-> "", table |-> tabs[t].name]
     ELSE [schema |-> SchemaOf(tabs[t].schema), table |-> tabs[t].name]

RespellCols(sd, key, tabs, a) ==
  LET b == Respell(sd, key, tabs, a) IN [schema |-> b.schema, table |-> b.table, cols |-> a.cols]

Applicable(base, k) ==
  LET tabs == OfKind(base, "table") IN
  CASE k = "DupAlias" -> \E i \in DOMAIN tabs : tabs[i].alias # ""
    [] k = "DupEnum" -> OfKind(base, "enum") # <<>>
    [] k = "DupGroup" -> OfKind(base, "group") # <<>>
    [] k = "DupRef" -> CollectedRefs(base) # <<>>
    [] k = "DupRefInline" -> \E i \in DOMAIN CollectedRefs(base) :
                                LET r == CollectedRefs(base)[i] IN
                                ~r.inline /\ Len(r.left.cols) = 1 /\ r.name = "" /\ r.onupdate = "" /\ r.ondelete = "" /\ r.type # "<>"
    [] k = "DupInlineTwice" -> \E i \in DOMAIN tabs : \E c \in DOMAIN tabs[i].cols : tabs[i].cols[c].refs # <<>>
    [] OTHER -> TRUE

Inject(sd, base, k) ==
  LET tabs == OfKind(base, "table")
      tpos == PickPos(sd, 902, Where(base, "table"))
      t == base[tpos]
      rs == CollectedRefs(base)
  IN
  CASE k = "DupTable" ->
         InsertSomewhere(sd, base, NewTable(IF Coin(sd, 903, 50) THEN SchemaOf(t.schema) ELSE t.schema, t.name, "", <<MinCol>>))
    [] k = "DupAlias" ->
         LET withAlias == SelectSeq(tabs, LAMBDA x : x.alias # "") IN
         InsertSomewhere(sd, base, NewTable("", "zz_new", PickPos(sd, 904, withAlias).alias, <<MinCol>>))
    [] k = "AliasIsKey" ->
         InsertSomewhere(sd, base, NewTable("", "zz_new", FullName(t), <<MinCol>>))
    [] k = "DupEnum" ->
         LET e == PickPos(sd, 905, OfKind(base, "enum")) IN
         InsertSomewhere(sd, base, [d |-> "enum", schema |-> IF Coin(sd, 906, 50) THEN SchemaOf(e.schema) ELSE e.schema,
                                      name |-> e.name, items |-> <<[name |-> "zz_i", note |-> "", comment |-> ""]>>, comment |-> ""])
    [] k = "DupGroup" ->
         LET g == PickPos(sd, 907, OfKind(base, "group")) IN
         InsertSomewhere(sd, base, [d |-> "group", name |-> g.name, items |-> <<>>, note |-> "", color |-> "", comment |-> ""])
    [] k = "DupGroupItem" ->
         LET a == [schema |-> t.schema, table |-> t.name] IN
         InsertSomewhere(sd, base, [d |-> "group", name |-> "zz_g",
                                      items |-> <<Respell(sd, 908, tabs, a), Respell(sd, 909, tabs, a)>>,
                                      note |-> "", color |-> "", comment |-> ""])
    [] k = "DupRef" ->
         LET r == PickPos(sd, 910, rs) IN
         InsertSomewhere(sd, base, [d |-> "ref", name |-> r.name, left |-> RespellCols(sd, 911, tabs, r.left), type |-> r.type,
                                      right |-> RespellCols(sd, 912, tabs, r.right), onupdate |-> r.onupdate,
                                      ondelete |-> r.ondelete, comment |-> ""])
    [] k = "DupRefInline" ->
         \* repeat a plain standalone reference as an inline one on its left column
         LET ok == SelectSeq(rs, LAMBDA r : ~r.inline /\ Len(r.left.cols) = 1 /\ r.name = "" /\ r.onupdate = "" /\ r.ondelete = "" /\ r.type # "<>")
             r == PickPos(sd, 913, ok)
             ti == Locate(tabs, r.left.schema, r.left.table, FALSE)
             pos == Where(base, "table")[ti]
             ci == ColIdx(tabs[ti], r.left.cols[1])
         IN [base EXCEPT ![pos].cols[ci].refs = Append(@, [type |-> r.type, addr |-> RespellCols(sd, 914, tabs, r.right)])]
    [] k = "DupInlineTwice" ->
         \* the same inline reference written twice on one column, letter for letter or in another admissible spelling
         LET poss == Idxs(base, LAMBDA x : x.d = "table" /\ \E c \in DOMAIN x.cols : x.cols[c].refs # <<>>)
             pos == PickPos(sd, 925, poss)
             ci == PickPos(sd, 926, Idxs(base[pos].cols, LAMBDA c : c.refs # <<>>))
             r == PickPos(sd, 927, base[pos].cols[ci].refs)
         IN [base EXCEPT ![pos].cols[ci].refs =
               Append(@, [type |-> r.type, addr |-> IF Coin(sd, 928, 60) THEN r.addr ELSE RespellCols(sd, 929, tabs, r.addr)])]
    \* the document declares NO table at all (its tables, references and groups are taken out) and then names one
    [] k = "RefNoTableAtAll" ->
         LET rest == SelectSeq(base, LAMBDA x : x.d \notin {"table", "ref", "group"}) IN
         InsertAt(rest, (H(sd, 937) % (Len(rest) + 1)) + 1,
                  [d |-> "ref", name |-> "", left |-> [schema |-> "", table |-> "zz_a", cols |-> <<"id">>], type |-> Pick(sd, 938, RefKinds),
                   right |-> [schema |-> IF Coin(sd, 939, 50) THEN "" ELSE "s1", table |-> "zz_b", cols |-> <<"id">>],
                   onupdate |-> "", ondelete |-> "", comment |-> ""])
    [] k = "GroupNoTableAtAll" ->
         LET rest == SelectSeq(base, LAMBDA x : x.d \notin {"table", "ref", "group"}) IN
         InsertAt(rest, (H(sd, 940) % (Len(rest) + 1)) + 1,
                  [d |-> "group", name |-> "zz_g", items |-> <<[schema |-> "", table |-> "zz_missing"]>>, note |-> "", color |-> "", comment |-> ""])
    [] k = "EmptyTable" ->
         InsertSomewhere(sd, base, [NewTable("", "zz_new", "", <<>>) EXCEPT !.note = IF Coin(sd, 915, 50) THEN "only a note" ELSE ""])
    [] k = "RefNoTable" ->
         LET good == [schema |-> t.schema, table |-> t.name, cols |-> <<t.cols[1].name>>]
             \* near miss: a table of that NAME exists, but only in another schema (addressed bare or as public.name it is missing)
             elsewhere == SelectSeq(tabs, LAMBDA x : Locate(tabs, "", x.name, FALSE) = 0)
             nm == PickPos(sd, 930, elsewhere)
             bad == IF elsewhere # <<>> /\ Coin(sd, 931, 50)
                    THEN [schema |-> IF Coin(sd, 932, 50) THEN "" ELSE "public", table |-> nm.name, cols |-> <<nm.cols[1].name>>]
                    ELSE [schema |-> IF Coin(sd, 916, 50) THEN "" ELSE "s1", table |-> "zz_missing", cols |-> <<"id">>]
             left == Coin(sd, 917, 50)
         IN InsertSomewhere(sd, base, [d |-> "ref", name |-> "", left |-> IF left THEN bad ELSE good, type |-> Pick(sd, 918, RefKinds),
                                         right |-> IF left THEN good ELSE bad, onupdate |-> "", ondelete |-> "", comment |-> ""])
    [] k = "RefNoColumn" ->
         LET good == [schema |-> t.schema, table |-> t.name, cols |-> <<t.cols[1].name>>]
             bad == [schema |-> t.schema, table |-> t.name, cols |-> <<"zz_nocol">>]
             left == Coin(sd, 919, 50)
             \* composite: one member of an endpoint exists, the other does not (either order)
             other == t.cols[Len(t.cols)].name
             goodC == [schema |-> t.schema, table |-> t.name, cols |-> <<t.cols[1].name, other>>]
             badC == [schema |-> t.schema, table |-> t.name,
                      cols |-> IF Coin(sd, 926, 50) THEN <<t.cols[1].name, "zz_nocol">> ELSE <<"zz_nocol", other>>]
         IN IF Coin(sd, 925, 35)
            THEN InsertSomewhere(sd, base, [d |-> "ref", name |-> "", left |-> IF left THEN badC ELSE goodC, type |-> Pick(sd, 921, RefKinds),
                                              right |-> IF left THEN goodC ELSE badC, onupdate |-> "", ondelete |-> "", comment |-> ""])
            ELSE IF Coin(sd, 920, 50)
            THEN InsertSomewhere(sd, base, [d |-> "ref", name |-> "", left |-> IF left THEN bad ELSE good, type |-> Pick(sd, 921, RefKinds),
                                              right |-> IF left THEN good ELSE bad, onupdate |-> "", ondelete |-> "", comment |-> ""])
            ELSE [base EXCEPT ![tpos].cols[1].refs = Append(@, [type |-> Pick(sd, 922, RefKinds), addr |-> bad])]
    [] k = "IdxNoColumn" ->
         \* (near miss: a name that differs from an existing column's only in letter case, where no column is spelt that way)
         LET variants == SelectSeq(<<"ID", "Id", "iD", "NAME", "Name", "TYPE", "Type", "NOTE", "PK", "Pk", "REF">>,
                                   LAMBDA v : ColIdx(t, v) = 0 /\ \E c \in DOMAIN t.cols : Fold(t.cols[c].name) = Fold(v))
             missing == IF variants # <<>> /\ Coin(sd, 935, 60) THEN PickPos(sd, 936, variants) ELSE "zz_nocol"
             bad == [subj |-> IF Coin(sd, 923, 50) THEN <<[k |-> "col", v |-> missing]>>
                              ELSE <<[k |-> "col", v |-> t.cols[1].name], [k |-> "col", v |-> missing]>>,
                     name |-> "", unique |-> FALSE, pk |-> FALSE, type |-> "", note |-> "", comment |-> ""]
             good == [subj |-> <<[k |-> "col", v |-> t.cols[1].name]>>, name |-> "zz_ok", unique |-> TRUE, pk |-> FALSE, type |-> "",
                      note |-> "", comment |-> ""] IN
         \* the offending index is the last of its block or the FIRST one, with a faultless index after it
         [base EXCEPT ![tpos].idxs = IF Coin(sd, 938, 50) THEN <<bad>> \o (IF @ = <<>> THEN <<good>> ELSE @) ELSE Append(@, bad)]
    [] k = "GroupNoTable" ->
         LET elsewhere == SelectSeq(tabs, LAMBDA x : Locate(tabs, "", x.name, FALSE) = 0) IN
         InsertSomewhere(sd, base, [d |-> "group", name |-> "zz_g",
                                      items |-> <<IF elsewhere # <<>> /\ Coin(sd, 933, 50)
                                                  THEN [schema |-> "", table |-> PickPos(sd, 934, elsewhere).name]
                                                  ELSE [schema |-> IF Coin(sd, 924, 50) THEN "" ELSE SchemaOf(t.schema), table |-> "zz_missing"]>>,
                                      note |-> "", color |-> "", comment |-> ""])

VARIABLE kind
FInit == seed \in SeedLo..SeedHi /\ kind \in DOMAIN FaultKinds
FNext == UNCHANGED <<seed, kind>>
Base == RandDocP(seed, WithProps)
Usable == WellFormed(Base) /\ OfKind(Base, "table") # <<>> /\ Applicable(Base, FaultKinds[kind])
FaultDoc == Inject(seed, Base, FaultKinds[kind])

\* design level (C06 "Ruled"): the model rejects every single-fault document with the rule's error
Ruled == Usable => ParseDoc(FaultDoc, TRUE) = Err(RuleClass(FaultKinds[kind]))
EmitFault == Usable => PrintT(<<"DOC", seed * 100 + kind, ToJson([doc |-> FaultDoc, kind |-> FaultKinds[kind]])>>)
=============================================================================
