----------------------------- MODULE TraceEdits -----------------------------
(***************************************************************************)
(* Conformance for C10.  One record per edit history:                      *)
(*   [tid, model, edits, steps, diffs]                                     *)
(* model  the content the database was parsed/built from                   *)
(* edits  the edits, as chosen by Edits!ChooseEdit                         *)
(* steps  projection of the real database after each edit                  *)
(* diffs  names of the renderings (db.dbml, db.sql, element renderings)    *)
(*        that differ between the edited database and a database freshly   *)
(*        built from the final model                                       *)
(***************************************************************************)
EXTENDS Edits, Diff, Json, IOUtils

Traces == ndJsonDeserialize(IOEnv.TRACE_FILE)

RECURSIVE After(_, _, _)
After(m, es, i) == IF i = 0 THEN m ELSE ApplyEdit(After(m, es, i - 1), es[i])

Verdict(e) ==
  LET bad == {i \in DOMAIN e.edits : ModelDiff(Eff(After(e.model, e.edits, i)), e.steps[i]) # ""} IN
  IF Len(e.steps) # Len(e.edits) THEN "harness: steps missing"
  ELSE IF bad # {} THEN
       LET i == CHOOSE i \in bad : \A j \in bad : i <= j IN
       "after edit " \o ToString(i) \o " (" \o e.edits[i].op \o ") the model differs: " \o ModelDiff(Eff(After(e.model, e.edits, i)), e.steps[i])
  ELSE IF e.diffs # <<>> THEN "stale rendering: " \o e.diffs[1]
  ELSE ""

VARIABLE ti
TInit == ti = 1 /\ seed = 0
TNext == /\ ti <= Len(Traces)
         /\ PrintT(<<"VERDICT", Traces[ti].tid, Verdict(Traces[ti])>>)
         /\ ti' = ti + 1 /\ UNCHANGED seed
=============================================================================
