------------------------------- MODULE Doc -------------------------------
(***************************************************************************)
(* DBML documents as abstract syntax, and what PyDBML's parser makes of    *)
(* them.                                                                   *)
(*                                                                         *)
(* A document is a sequence of top-level declarations (records, no text).  *)
(* ParseDoc is the operational model of pydbml.parser: phase 1 collects    *)
(* the declarations in source order (inline references are collected when  *)
(* their table is), phase 2 drives the Database container through a fixed  *)
(* schedule -- enums, tables, groups, sticky notes, project, references -- *)
(* and stops at the first step that is refused.  The result is either the  *)
(* model [kind |-> "db", ...] with every link expressed as a POSITION      *)
(* (table index, column index, enum index), or [kind |-> "error", class].  *)
(*                                                                         *)
(* The harness prints a document to text in many admissible surface forms, *)
(* parses it with the real library and projects the returned Database onto *)
(* the same record, resolving every link by object IDENTITY.  TraceDoc.tla *)
(* compares the two.                                                       *)
(***************************************************************************)
EXTENDS Naturals, Sequences, FiniteSets, TLC, SequencesExt, Functions

Absent == ""
SchemaOf(x) == IF x = Absent THEN "public" ELSE x

FirstIdx(q, P(_)) == IF \E i \in DOMAIN q : P(q[i])
                     THEN CHOOSE i \in DOMAIN q : P(q[i]) /\ \A j \in 1..(i - 1) : ~P(q[j])
                     ELSE 0
Cat(seqs) == FoldLeft(LAMBDA a, b : a \o b, <<>>, seqs)   \* flatten a sequence of sequences
Idxs(q, P(_)) == SelectSeq([i \in DOMAIN q |-> i], LAMBDA i : P(q[i]))

(***************************************************************************)
(* Declarations                                                            *)
(*  table   [d, schema, name, alias, color, note, props, comment, cols,    *)
(*           idxs]                                                         *)
(*    col   [name, type:[schema,name,suffix], pk, unique, notnull, autoinc,*)
(*           default:[k,v], note, props, comment, refs:Seq([type, addr])]  *)
(*    idx   [subj:Seq([k,v]), name, unique, pk, type, note, comment]       *)
(*  enum    [d, schema, name, items:Seq([name,note,comment]), comment]     *)
(*  ref     [d, name, left:addr, type, right:addr, onupdate, ondelete,     *)
(*           comment]                  addr = [schema, table, cols]        *)
(*  group   [d, name, items:Seq([schema,table]), note, color, comment]     *)
(*  sticky  [d, name, text]                                                *)
(*  project [d, name, items:Seq(<<k,v>>), note, comment]                   *)
(* Optional strings are "" when absent.  An address is AS WRITTEN: schema  *)
(* "" means no schema was written; `table` may be a name or an alias.      *)
(***************************************************************************)
OfKind(doc, k) == SelectSeq(doc, LAMBDA x : x.d = k)

TypeText(ty) == (IF ty.schema = Absent THEN "" ELSE ty.schema \o ".") \o ty.name \o ty.suffix

FullName(t) == SchemaOf(t.schema) \o "." \o t.name
KeysOfDecl(t) == {FullName(t)} \cup (IF t.alias = Absent THEN {} ELSE {t.alias})

(***************************************************************************)
(* Resolution of a written table address.                                  *)
(*   A schema-qualified address names exactly schema.table.  An address in *)
(*   the public schema (written `public.x` or just `x` -- the grammar does *)
(*   not keep the difference) names the table public.x, else the table     *)
(*   whose alias is x.                                                     *)
(*   asBuilt (before fix 7c..., finding F-C05a): the bare name was looked  *)
(*   up as an alias first and the schema ignored; kept so that a           *)
(*   regression to that behaviour is named in the verdict.                 *)
(***************************************************************************)
ByAlias(tabs, n) == FirstIdx(tabs, LAMBDA t : t.alias = n)
ByFull(tabs, s, n) == FirstIdx(tabs, LAMBDA t : SchemaOf(t.schema) = s /\ t.name = n)

Locate(tabs, schema, name, asBuilt) ==
  IF asBuilt
  THEN IF ByAlias(tabs, name) # 0 THEN ByAlias(tabs, name) ELSE ByFull(tabs, SchemaOf(schema), name)
  ELSE IF ByFull(tabs, SchemaOf(schema), name) # 0 THEN ByFull(tabs, SchemaOf(schema), name)
       ELSE IF SchemaOf(schema) = "public" THEN ByAlias(tabs, name) ELSE 0

ColIdx(t, cname) == FirstIdx(t.cols, LAMBDA c : c.name = cname)

(***************************************************************************)
(* Phase 1: source order; references = standalone ones and, at the         *)
(* position of each table, that table's inline ones (column by column).    *)
(***************************************************************************)
InlineRefsOf(t) ==
  Cat([i \in DOMAIN t.cols |->
        [j \in DOMAIN t.cols[i].refs |->
            [name |-> Absent, type |-> t.cols[i].refs[j].type,
             left |-> [schema |-> t.schema, table |-> t.name, cols |-> <<t.cols[i].name>>],
             right |-> t.cols[i].refs[j].addr,
             onupdate |-> Absent, ondelete |-> Absent, comment |-> Absent,
             inline |-> TRUE, home |-> <<t.schema, t.name>>]]])

StandaloneRef(r) ==
  [name |-> r.name, type |-> r.type, left |-> r.left, right |-> r.right,
   onupdate |-> r.onupdate, ondelete |-> r.ondelete, comment |-> r.comment,
   inline |-> FALSE, home |-> <<>>]

CollectedRefs(doc) ==
  Cat([i \in DOMAIN doc |->
        IF doc[i].d = "ref" THEN <<StandaloneRef(doc[i])>>
        ELSE IF doc[i].d = "table" THEN InlineRefsOf(doc[i]) ELSE <<>>])

UsesProps(t) == t.props # <<>> \/ \E i \in DOMAIN t.cols : t.cols[i].props # <<>>

\* the project that counts is the last one declared
ProjectOf(doc) == LET ps == OfKind(doc, "project") IN IF ps = <<>> THEN <<>> ELSE <<ps[Len(ps)]>>

Err(cls) == [kind |-> "error", class |-> cls]
DVE == "DatabaseValidationError"

(***************************************************************************)
(* Phase 2, step by step; each operator gives the error class of the first *)
(* refused step of its stage, or "" if the stage passes.                   *)
(***************************************************************************)
EnumKey(e) == <<SchemaOf(e.schema), e.name>>

EnumStage(enums) ==
  IF \E j \in DOMAIN enums : \E i \in 1..(j - 1) : EnumKey(enums[i]) = EnumKey(enums[j]) THEN DVE ELSE ""

\* building table j: index subjects are resolved against the table's own columns; then add_table
TableStepErr(tabs, j) ==
  LET t == tabs[j] IN
  IF \E x \in DOMAIN t.idxs : \E y \in DOMAIN t.idxs[x].subj :
        t.idxs[x].subj[y].k = "col" /\ ColIdx(t, t.idxs[x].subj[y].v) = 0
  THEN "ColumnNotFoundError"
  ELSE IF \E i \in 1..(j - 1) : KeysOfDecl(tabs[i]) \cap KeysOfDecl(t) # {} THEN DVE
  ELSE ""

FirstErr(n, E(_)) ==   \* first non-empty E(i), i = 1..n
  IF \E i \in 1..n : E(i) # "" THEN E(CHOOSE i \in 1..n : E(i) # "" /\ \A j \in 1..(i - 1) : E(j) = "") ELSE ""

TableStage(tabs) == FirstErr(Len(tabs), LAMBDA j : TableStepErr(tabs, j))

GroupItemIdx(tabs, it, asBuilt) == Locate(tabs, it.schema, it.table, asBuilt)

GroupStepErr(tabs, groups, j, asBuilt) ==
  LET g == groups[j]
      ItemErr(k) == IF GroupItemIdx(tabs, g.items[k], asBuilt) = 0 THEN "TableNotFoundError"
                    ELSE IF \E m \in 1..(k - 1) : GroupItemIdx(tabs, g.items[m], asBuilt) = GroupItemIdx(tabs, g.items[k], asBuilt)
                         THEN "ValidationError" ELSE ""
      ie == FirstErr(Len(g.items), ItemErr)
  IN IF ie # "" THEN ie
     ELSE IF \E i \in 1..(j - 1) : groups[i].name = g.name THEN DVE ELSE ""

GroupStage(tabs, groups, asBuilt) == FirstErr(Len(groups), LAMBDA j : GroupStepErr(tabs, groups, j, asBuilt))

\* a reference resolved to positions; 0 marks what could not be found
Resolve(tabs, r, asBuilt) ==
  LET t1 == Locate(tabs, r.left.schema, r.left.table, asBuilt)
      t2 == Locate(tabs, r.right.schema, r.right.table, asBuilt)
  IN [type |-> r.type, name |-> r.name, onupdate |-> r.onupdate, ondelete |-> r.ondelete,
      comment |-> r.comment, inline |-> (r.inline /\ r.type # "<>"),
      t1 |-> t1, c1 |-> IF t1 = 0 THEN <<>> ELSE [i \in DOMAIN r.left.cols |-> ColIdx(tabs[t1], r.left.cols[i])],
      t2 |-> t2, c2 |-> IF t2 = 0 THEN <<>> ELSE [i \in DOMAIN r.right.cols |-> ColIdx(tabs[t2], r.right.cols[i])]]

\* "identical reference": same endpoints, kind, name and actions, however written.
\* cmpComment: as built Reference.__eq__ also compares the comment (finding F-C06a)
SameRef(a, b, cmpComment) ==
  /\ a.type = b.type /\ a.t1 = b.t1 /\ a.c1 = b.c1 /\ a.t2 = b.t2 /\ a.c2 = b.c2
  /\ a.name = b.name /\ a.onupdate = b.onupdate /\ a.ondelete = b.ondelete
  /\ (cmpComment => a.comment = b.comment)

RefStepErr(rs, j, cmpComment) ==
  LET r == rs[j] IN
  IF r.t1 = 0 THEN "TableNotFoundError"
  ELSE IF \E i \in DOMAIN r.c1 : r.c1[i] = 0 THEN "ColumnNotFoundError"
  ELSE IF r.t2 = 0 THEN "TableNotFoundError"
  ELSE IF \E i \in DOMAIN r.c2 : r.c2[i] = 0 THEN "ColumnNotFoundError"
  ELSE IF \E i \in 1..(j - 1) : SameRef(rs[i], r, cmpComment) THEN DVE
  ELSE ""

RefStage(rs, cmpComment) == FirstErr(Len(rs), LAMBDA j : RefStepErr(rs, j, cmpComment))

(***************************************************************************)
(* The model                                                               *)
(***************************************************************************)
BindType(enums, ty) ==
  LET k == FirstIdx(enums, LAMBDA e : ty.suffix = "" /\ EnumKey(e) = <<SchemaOf(ty.schema), ty.name>>)
  IN IF k = 0 THEN [k |-> "str", v |-> TypeText(ty)] ELSE [k |-> "enum", e |-> k]

\* `default: null` is stored as the text NULL
ModelDefault(df) == IF df.k = "null" THEN [k |-> "str", v |-> "NULL"] ELSE df

ModelCol(enums, c) ==
  [name |-> c.name, type |-> BindType(enums, c.type), pk |-> c.pk, unique |-> c.unique,
   notnull |-> c.notnull, autoinc |-> c.autoinc, default |-> ModelDefault(c.default), note |-> c.note,
   props |-> c.props, comment |-> c.comment]

ModelIdx(t, x) ==
  [subj |-> [i \in DOMAIN x.subj |-> IF x.subj[i].k = "col" THEN [k |-> "col", i |-> ColIdx(t, x.subj[i].v)]
                                     ELSE [k |-> "expr", v |-> x.subj[i].v]],
   name |-> x.name, unique |-> x.unique, pk |-> x.pk, type |-> x.type, note |-> x.note, comment |-> x.comment]

ModelTable(enums, t) ==
  [schema |-> SchemaOf(t.schema), name |-> t.name, alias |-> t.alias, color |-> t.color,
   note |-> t.note, props |-> t.props, comment |-> t.comment,
   cols |-> [i \in DOMAIN t.cols |-> ModelCol(enums, t.cols[i])],
   idxs |-> [i \in DOMAIN t.idxs |-> ModelIdx(t, t.idxs[i])]]

ModelEnum(e) == [schema |-> SchemaOf(e.schema), name |-> e.name, items |-> e.items, comment |-> e.comment]

ModelGroup(tabs, g, asBuilt) ==
  [name |-> g.name, items |-> [i \in DOMAIN g.items |-> GroupItemIdx(tabs, g.items[i], asBuilt)],
   note |-> g.note, color |-> g.color, comment |-> g.comment]

NoProject == [present |-> FALSE, name |-> "", items |-> <<>>, note |-> "", comment |-> ""]

ParseDocW(doc, allowProps, asBuilt, cmpComment) ==
  LET tabs == OfKind(doc, "table")
      enums == OfKind(doc, "enum")
      groups == OfKind(doc, "group")
      notes == OfKind(doc, "sticky")
      proj == ProjectOf(doc)
      rs == [i \in DOMAIN CollectedRefs(doc) |-> Resolve(tabs, CollectedRefs(doc)[i], asBuilt)]
      \* phase 1: the first declaration (source order) that the grammar or its parse action refuses
      \* (d = "raw": text that is no DBML element at all)
      P1(i) == IF doc[i].d = "raw" THEN "ParseBaseException"
               ELSE IF doc[i].d = "table" /\ ~allowProps /\ UsesProps(doc[i]) THEN "ParseBaseException"
               ELSE IF doc[i].d = "table" /\ doc[i].cols = <<>> THEN "SyntaxError" ELSE ""
      e1 == FirstErr(Len(doc), P1)
      e2 == EnumStage(enums)
      e3 == TableStage(tabs)
      e4 == GroupStage(tabs, groups, asBuilt)
      e5 == RefStage(rs, cmpComment)
  IN IF e1 # "" THEN Err(e1) ELSE IF e2 # "" THEN Err(e2) ELSE IF e3 # "" THEN Err(e3)
     ELSE IF e4 # "" THEN Err(e4) ELSE IF e5 # "" THEN Err(e5)
     ELSE [kind |-> "db",
           tables |-> [i \in DOMAIN tabs |-> ModelTable(enums, tabs[i])],
           enums |-> [i \in DOMAIN enums |-> ModelEnum(enums[i])],
           refs |-> rs,
           groups |-> [i \in DOMAIN groups |-> ModelGroup(tabs, groups[i], asBuilt)],
           notes |-> [i \in DOMAIN notes |-> [name |-> notes[i].name, text |-> notes[i].text]],
           project |-> IF proj = <<>> THEN NoProject
                       ELSE [present |-> TRUE, name |-> proj[1].name, items |-> proj[1].items,
                             note |-> proj[1].note, comment |-> proj[1].comment],
           allowprops |-> allowProps]

ParseDoc(doc, allowProps) == ParseDocW(doc, allowProps, FALSE, FALSE)        \* intended
ParseDocAsBuilt(doc, allowProps) == ParseDocW(doc, allowProps, TRUE, TRUE)   \* with F-C05a, F-C06a

(***************************************************************************)
(* What a user relies on, stated declaratively over ParseDoc's result and  *)
(* checked by TLC for every generated document (design level).             *)
(***************************************************************************)
\* C01: nothing dropped, nothing invented, source order
NothingDropped(doc, m) ==
  /\ Len(m.tables) = Len(OfKind(doc, "table"))
  /\ Len(m.enums) = Len(OfKind(doc, "enum"))
  /\ Len(m.groups) = Len(OfKind(doc, "group"))
  /\ Len(m.notes) = Len(OfKind(doc, "sticky"))
  /\ Len(m.refs) = Len(OfKind(doc, "ref"))
        + FoldLeft(LAMBDA a, t : a + FoldLeft(LAMBDA b, c : b + Len(c.refs), 0, t.cols), 0, OfKind(doc, "table"))
  /\ \A i \in DOMAIN m.tables :
        /\ m.tables[i].name = OfKind(doc, "table")[i].name
        /\ [j \in DOMAIN m.tables[i].cols |-> m.tables[i].cols[j].name]
              = [j \in DOMAIN OfKind(doc, "table")[i].cols |-> OfKind(doc, "table")[i].cols[j].name]
        /\ Len(m.tables[i].idxs) = Len(OfKind(doc, "table")[i].idxs)
  /\ m.project.present = (OfKind(doc, "project") # <<>>)

\* C05: every link points into the model and at the thing that was addressed
AddressedBy(t, a) ==   \* table t is what address a denotes
  \/ SchemaOf(a.schema) = "public" /\ t.alias = a.table
  \/ t.schema = SchemaOf(a.schema) /\ t.name = a.table
Linked(doc, m) ==
  LET rs == CollectedRefs(doc) IN
  /\ \A i \in DOMAIN m.refs :
       LET r == m.refs[i] IN
       /\ r.t1 \in DOMAIN m.tables /\ r.t2 \in DOMAIN m.tables
       /\ AddressedBy(m.tables[r.t1], rs[i].left) /\ AddressedBy(m.tables[r.t2], rs[i].right)
       /\ \A k \in DOMAIN r.c1 : r.c1[k] \in DOMAIN m.tables[r.t1].cols
                                 /\ m.tables[r.t1].cols[r.c1[k]].name = rs[i].left.cols[k]
       /\ \A k \in DOMAIN r.c2 : r.c2[k] \in DOMAIN m.tables[r.t2].cols
                                 /\ m.tables[r.t2].cols[r.c2[k]].name = rs[i].right.cols[k]
       \* an inline reference starts at the column that declared it
       /\ rs[i].inline => <<m.tables[r.t1].schema, m.tables[r.t1].name>> = <<SchemaOf(rs[i].home[1]), rs[i].home[2]>>
  /\ \A i \in DOMAIN m.tables : \A x \in DOMAIN m.tables[i].idxs : \A y \in DOMAIN m.tables[i].idxs[x].subj :
       LET sj == m.tables[i].idxs[x].subj[y] IN sj.k = "col" => sj.i \in DOMAIN m.tables[i].cols
  /\ \A i \in DOMAIN m.tables : \A j \in DOMAIN m.tables[i].cols :
       LET ty == m.tables[i].cols[j].type IN ty.k = "enum" => ty.e \in DOMAIN m.enums
  /\ \A g \in DOMAIN m.groups : \A k \in DOMAIN m.groups[g].items : m.groups[g].items[k] \in DOMAIN m.tables

(***************************************************************************)
(* C14: comments are inert -- a model with every comment attribute blanked *)
(***************************************************************************)
MaskComments(m) ==
  IF m.kind # "db" THEN m
  ELSE [m EXCEPT
         !.tables = [i \in DOMAIN @ |->
                      [@[i] EXCEPT !.comment = "",
                                   !.cols = [c \in DOMAIN @ |-> [@[c] EXCEPT !.comment = ""]],
                                   !.idxs = [x \in DOMAIN @ |-> [@[x] EXCEPT !.comment = ""]]]],
         !.enums = [i \in DOMAIN @ |->
                      [@[i] EXCEPT !.comment = "", !.items = [c \in DOMAIN @ |-> [@[c] EXCEPT !.comment = ""]]]],
         !.refs = [i \in DOMAIN @ |-> [@[i] EXCEPT !.comment = ""]],
         !.groups = [i \in DOMAIN @ |-> [@[i] EXCEPT !.comment = ""]],
         !.project.comment = ""]

(***************************************************************************)
(* Queries over the model (C05): what get_refs and the SQL key-holder rule *)
(* must return, as positions in m.refs                                     *)
(***************************************************************************)
GetRefs(m, t) == Idxs(m.refs, LAMBDA r : r.t1 = t)
ColGetRefs(m, t, c) == Idxs(m.refs, LAMBDA r : r.t1 = t /\ \E k \in DOMAIN r.c1 : r.c1[k] = c)
SqlRefs(m, t) == Idxs(m.refs, LAMBDA r : (r.type \in {">", "-"} /\ r.t1 = t) \/ (r.type = "<" /\ r.t2 = t))

\* every non-many-to-many reference has exactly one SQL key holder
OneKeyHolder(m) ==
  \A i \in DOMAIN m.refs : m.refs[i].type # "<>" =>
     Cardinality({t \in DOMAIN m.tables : \E k \in DOMAIN SqlRefs(m, t) : SqlRefs(m, t)[k] = i}) = 1

(***************************************************************************)
(* Well-formed documents (DESIGN 4.2): the domain of C01/C05               *)
(***************************************************************************)
Distinct(q) == \A i, j \in DOMAIN q : q[i] = q[j] => i = j
WellFormed(doc) ==
  LET tabs == OfKind(doc, "table") IN
  /\ ParseDoc(doc, TRUE).kind = "db"
  /\ Len(OfKind(doc, "project")) <= 1
  \* no alias equals the bare name of another public table (ambiguous in DBML itself)
  /\ \A i, j \in DOMAIN tabs : i # j /\ tabs[i].alias # Absent =>
        ~(SchemaOf(tabs[j].schema) = "public" /\ tabs[j].name = tabs[i].alias)
  /\ \A i \in DOMAIN tabs : Distinct([j \in DOMAIN tabs[i].cols |-> tabs[i].cols[j].name])
=============================================================================
