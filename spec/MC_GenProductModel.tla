---- MODULE MC_GenProductModel ----
EXTENDS GenProductModel
====
