------------------------------ MODULE DbmlOut ------------------------------
(***************************************************************************)
(* The DBML renderer as a function from models to DOCUMENTS (the abstract  *)
(* syntax of Doc.tla), following the renderer's design decisions:          *)
(*   order: project, enums, tables, non-inline references, groups, sticky  *)
(*   notes; an inline reference is written in the settings of its first    *)
(*   left-hand column; schemas are written unless public; properties only  *)
(*   when the database allows them.                                        *)
(* C02 is then a statement about two state machines composed:              *)
(*   RoundTrip   ParseDoc(RenderDecl(m)) has the content of m              *)
(*   Fixpoint    RenderDecl(ParseDoc(RenderDecl(m))) = RenderDecl(m)       *)
(* TLC checks both on every generated model; it also shows where the       *)
(* design itself cannot keep the promise (the order of references).        *)
(***************************************************************************)
EXTENDS Doc

Opt(schema) == IF schema = "public" THEN Absent ELSE schema

RenderType(m, ty) ==
  IF ty.k = "enum" THEN [schema |-> Opt(m.enums[ty.e].schema), name |-> m.enums[ty.e].name, suffix |-> ""]
  ELSE [schema |-> Absent, name |-> ty.v, suffix |-> ""]      \* the stored text, verbatim

FullAddr(m, t) == [schema |-> Opt(m.tables[t].schema), table |-> m.tables[t].name]
ColsAddr(m, t, cs) == [schema |-> Opt(m.tables[t].schema), table |-> m.tables[t].name,
                       cols |-> [i \in DOMAIN cs |-> m.tables[t].cols[cs[i]].name]]

\* the inline references written in the settings of column c of table t, in database order
InlineOf(m, t, c) == SelectSeq(m.refs, LAMBDA r : r.inline /\ r.t1 = t /\ r.c1[1] = c)

\* `default` of the model back to declaration syntax: the text NULL is written as the null literal
\* only by value -- a string default NULL re-parses as the same text
RenderDefault(df) == df

RenderCol(m, t, c) ==
  LET col == m.tables[t].cols[c] IN
  [name |-> col.name, type |-> RenderType(m, col.type), pk |-> col.pk, unique |-> col.unique,
   notnull |-> col.notnull, autoinc |-> col.autoinc, default |-> RenderDefault(col.default),
   note |-> col.note, props |-> IF m.allowprops THEN col.props ELSE <<>>, comment |-> col.comment,
   refs |-> [i \in DOMAIN InlineOf(m, t, c) |->
              [type |-> InlineOf(m, t, c)[i].type,
               addr |-> ColsAddr(m, InlineOf(m, t, c)[i].t2, InlineOf(m, t, c)[i].c2)]]]

RenderIdx(m, t, x) ==
  LET ix == m.tables[t].idxs[x] IN
  [subj |-> [i \in DOMAIN ix.subj |-> IF ix.subj[i].k = "col" THEN [k |-> "col", v |-> m.tables[t].cols[ix.subj[i].i].name]
                                     ELSE [k |-> "expr", v |-> ix.subj[i].v]],
   name |-> ix.name, unique |-> ix.unique, pk |-> ix.pk, type |-> ix.type, note |-> ix.note, comment |-> ix.comment]

RenderTable(m, t) ==
  LET tb == m.tables[t] IN
  [d |-> "table", schema |-> Opt(tb.schema), name |-> tb.name, alias |-> tb.alias, color |-> tb.color,
   note |-> tb.note, props |-> IF m.allowprops THEN tb.props ELSE <<>>, comment |-> tb.comment,
   cols |-> [c \in DOMAIN tb.cols |-> RenderCol(m, t, c)],
   idxs |-> [x \in DOMAIN tb.idxs |-> RenderIdx(m, t, x)]]

RenderRef(m, r) ==
  [d |-> "ref", name |-> r.name, left |-> ColsAddr(m, r.t1, r.c1), type |-> r.type, right |-> ColsAddr(m, r.t2, r.c2),
   onupdate |-> r.onupdate, ondelete |-> r.ondelete, comment |-> r.comment]

RenderDecl(m) ==
  (IF m.project.present THEN <<[d |-> "project", name |-> m.project.name, items |-> m.project.items,
                               note |-> m.project.note, comment |-> m.project.comment]>> ELSE <<>>)
  \o [i \in DOMAIN m.enums |-> [d |-> "enum", schema |-> Opt(m.enums[i].schema), name |-> m.enums[i].name,
                                items |-> m.enums[i].items, comment |-> m.enums[i].comment]]
  \o [t \in DOMAIN m.tables |-> RenderTable(m, t)]
  \o [i \in DOMAIN SelectSeq(m.refs, LAMBDA r : ~r.inline) |-> RenderRef(m, SelectSeq(m.refs, LAMBDA r : ~r.inline)[i])]
  \o [g \in DOMAIN m.groups |-> [d |-> "group", name |-> m.groups[g].name,
                                 items |-> [i \in DOMAIN m.groups[g].items |-> FullAddr(m, m.groups[g].items[i])],
                                 note |-> m.groups[g].note, color |-> m.groups[g].color, comment |-> m.groups[g].comment]]
  \o [n \in DOMAIN m.notes |-> [d |-> "sticky", name |-> m.notes[n].name, text |-> m.notes[n].text]]

\* what re-parsing the rendering gives, by the two models composed
Reparsed(m) == ParseDoc(RenderDecl(m), m.allowprops)

\* content the rendering is allowed to leave out: properties of a database that does not allow them
Shown(m) ==
  IF m.allowprops THEN m
  ELSE [m EXCEPT !.tables = [t \in DOMAIN @ |-> [@[t] EXCEPT !.props = <<>>,
                                                           !.cols = [c \in DOMAIN @ |-> [@[c] EXCEPT !.props = <<>>]]]]]

\* DBML cannot say on which column of a composite / named / acting reference it is inline: such
\* references are not DBML-expressible as inline (DESIGN 4.1) and are outside the domain
Expressible(m) ==
  /\ m.kind = "db"
  /\ \A i \in DOMAIN m.refs : m.refs[i].inline =>
        /\ Len(m.refs[i].c1) = 1 /\ Len(m.refs[i].c2) = 1
        /\ m.refs[i].name = "" /\ m.refs[i].onupdate = "" /\ m.refs[i].ondelete = "" /\ m.refs[i].comment = ""

IsPerm(a, b) == Len(a) = Len(b) /\ \E f \in [DOMAIN a -> DOMAIN a] :
                   (\A i, j \in DOMAIN a : f[i] = f[j] => i = j) /\ \A i \in DOMAIN a : a[i] = b[f[i]]

\* design level
RoundTripButRefOrder(m) ==
  Expressible(m) =>
    /\ Reparsed(m).kind = "db"
    /\ [Reparsed(m) EXCEPT !.refs = <<>>] = [Shown(m) EXCEPT !.refs = <<>>]
    /\ Len(m.refs) <= 6 => IsPerm(m.refs, Reparsed(m).refs)
FixpointHolds(m) == Expressible(m) => RenderDecl(Reparsed(m)) = RenderDecl(m)
\* the order of references survives iff they are already in "collected" order
RefOrderKept(m) == Reparsed(m).refs = m.refs
=============================================================================
