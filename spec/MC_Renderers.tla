---- MODULE MC_Renderers ----
EXTENDS Renderers
====
