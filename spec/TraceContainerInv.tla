------------------------- MODULE TraceContainerInv -------------------------
(* one record per recorded container call: [tid, call, outcome, pre, post, pre_ok] ; pre_ok = the state before the call
   already satisfied the invariants (a test may set up an inconsistent state on purpose: then the call is not judged) *)
EXTENDS ContainerInv, Json, IOUtils
Traces == ndJsonDeserialize(IOEnv.TRACE_FILE)
Verdict(e) ==
  IF FirstFalse(StateClauses(e.pre)) # "" THEN "pre-state-not-consistent"
  ELSE IF FirstFalse(StepClauses(e)) # "" THEN e.call \o ": " \o FirstFalse(StepClauses(e))
  ELSE IF FirstFalse(StateClauses(e.post)) # "" THEN e.call \o " -> " \o e.outcome \o ": " \o FirstFalse(StateClauses(e.post))
  ELSE ""
VARIABLE ti
TInit == ti = 1
TNext == /\ ti <= Len(Traces)
         /\ PrintT(<<"VERDICT", Traces[ti].tid, Verdict(Traces[ti])>>)
         /\ ti' = ti + 1
=============================================================================
