---- MODULE TraceC09_others ----
EXTENDS MC_C09_others, TraceContainer
====
