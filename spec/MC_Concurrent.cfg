CONSTANTS
  Procs <- MC_Procs
  NDecls <- MC_NDecls
  SharedAttach = FALSE
SPECIFICATION Spec
INVARIANT GrammarUntouched
INVARIANT ResultIsOwnDocument
INVARIANT NoSharing
INVARIANT EmitSchedule
CHECK_DEADLOCK FALSE
