---- MODULE MC_GenProduct ----
EXTENDS GenProduct
====
