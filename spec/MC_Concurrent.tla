---- MODULE MC_Concurrent ----
EXTENDS Concurrent
MC_Procs == {1, 2}
MC_NDecls == (1 :> 2) @@ (2 :> 2)
====
