------------------------- MODULE MC_C09_tables -------------------------
(* Universe "tables" (DESIGN 4.6): three table objects, two of them structurally equal at
   birth, two value pools that let names, schemas and aliases clash, and three references
   over their columns, two of them equal up to inline-ness. *)
EXTENDS Container, Json, SequencesExt

TableDefs == <<
  [id |-> 1, name |-> "n1", schema |-> "public", alias |-> "", sig |-> "A", cols |-> <<11, 12>>, idxs |-> <<>>],
  [id |-> 2, name |-> "n1", schema |-> "public", alias |-> "", sig |-> "A", cols |-> <<21, 22>>, idxs |-> <<>>],
  [id |-> 3, name |-> "n2", schema |-> "public", alias |-> "", sig |-> "B", cols |-> <<31, 32>>, idxs |-> <<>>] >>
ColDefs == <<
  [id |-> 11, name |-> "id", type |-> "int"], [id |-> 12, name |-> "v", type |-> "text"],
  [id |-> 21, name |-> "id", type |-> "int"], [id |-> 22, name |-> "v", type |-> "text"],
  [id |-> 31, name |-> "id", type |-> "int"], [id |-> 32, name |-> "w", type |-> "text"] >>
IdxDefs == <<>>
RefDefs == <<
  [id |-> 41, type |-> ">", c1 |-> <<12>>, c2 |-> <<31>>, sig |-> "", inline |-> FALSE],
  [id |-> 42, type |-> ">", c1 |-> <<12>>, c2 |-> <<31>>, sig |-> "", inline |-> TRUE],
  [id |-> 43, type |-> "<", c1 |-> <<32>>, c2 |-> <<21>>, sig |-> "fk", inline |-> FALSE] >>
EnumDefs == <<>>
GroupDefs == <<>>
StickyDefs == <<>>
ProjectDefs == <<>>
JunkDefs == <<>>

Ids(defs) == {defs[i].id : i \in DOMAIN defs}
Def(defs, x) == CHOOSE d \in Range(defs) : d.id = x

MC_Tables == Ids(TableDefs)
MC_Cols == Ids(ColDefs)
MC_Idxs == Ids(IdxDefs)
MC_Refs == Ids(RefDefs)
MC_Enums == Ids(EnumDefs)
MC_Groups == Ids(GroupDefs)
MC_Stickies == Ids(StickyDefs)
MC_Projects == Ids(ProjectDefs)
MC_Junk == Ids(JunkDefs)
MC_TableInit == [t \in MC_Tables |-> Def(TableDefs, t)]
MC_ColSig == [c \in MC_Cols |-> Def(ColDefs, c).name \o ":" \o Def(ColDefs, c).type]
MC_ColName == [c \in MC_Cols |-> Def(ColDefs, c).name]
MC_IdxSig == [i \in MC_Idxs |-> Def(IdxDefs, i).sig]
MC_IdxSubj == [i \in MC_Idxs |-> Def(IdxDefs, i).subj]
MC_RefSig == [r \in MC_Refs |-> Def(RefDefs, r).type \o "/" \o Def(RefDefs, r).sig]
MC_RefC1 == [r \in MC_Refs |-> Def(RefDefs, r).c1]
MC_RefC2 == [r \in MC_Refs |-> Def(RefDefs, r).c2]
MC_EnumName == [e \in MC_Enums |-> <<Def(EnumDefs, e).schema, Def(EnumDefs, e).name>>]
MC_GroupName == [g \in MC_Groups |-> Def(GroupDefs, g).name]
MC_RenameNames == {"n1", "n2"}
MC_RenameSchemas == {"public", "s"}
MC_RenameAliases == {"", "x", "public.n1"}

Call(op, o, t, k, f, v) == [op |-> op, o |-> o, t |-> t, k |-> k, f |-> f, v |-> v]
OpSet ==
  {Call(op, o, 0, 0, "", "") : op \in {"add", "add_x", "delete", "delete_x"}, o \in MC_Tables \cup MC_Refs}
  \cup {Call("rename", 0, t, 0, "name", v) : t \in MC_Tables, v \in MC_RenameNames}
  \cup {Call("rename", 0, t, 0, "schema", v) : t \in MC_Tables, v \in MC_RenameSchemas}
  \cup {Call("rename", 0, t, 0, "alias", v) : t \in MC_Tables, v \in MC_RenameAliases}
MC_Ops == SetToSeq(OpSet)
MC_Deviations == {}
KeyPool == {sc \o "." \o n : sc \in MC_RenameSchemas, n \in MC_RenameNames} \cup (MC_RenameAliases \ {""})

Universe == [tables |-> TableDefs, cols |-> ColDefs, idxs |-> IdxDefs, refs |-> RefDefs,
             enums |-> EnumDefs, groups |-> GroupDefs, stickies |-> StickyDefs,
             projects |-> ProjectDefs, junk |-> JunkDefs, ops |-> MC_Ops, keypool |-> KeyPool,
             colnames |-> {ColDefs[i].name : i \in DOMAIN ColDefs}]

ASSUME PrintT(<<"UNIVERSE", ToJson(Universe)>>)
=============================================================================
