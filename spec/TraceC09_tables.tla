---- MODULE TraceC09_tables ----
EXTENDS MC_C09_tables, TraceContainer
====
