CONSTANTS
  Tables <- MC_Tables
  Cols <- MC_Cols
  Idxs <- MC_Idxs
  Refs <- MC_Refs
  Enums <- MC_Enums
  Groups <- MC_Groups
  Stickies <- MC_Stickies
  Projects <- MC_Projects
  Junk <- MC_Junk
  TableInit <- MC_TableInit
  ColSig <- MC_ColSig
  ColName <- MC_ColName
  IdxSig <- MC_IdxSig
  IdxSubj <- MC_IdxSubj
  RefSig <- MC_RefSig
  RefC1 <- MC_RefC1
  RefC2 <- MC_RefC2
  EnumName <- MC_EnumName
  GroupName <- MC_GroupName
  RenameNames <- MC_RenameNames
  RenameSchemas <- MC_RenameSchemas
  RenameAliases <- MC_RenameAliases
  Ops <- MC_Ops
  Deviations <- MC_Deviations
INIT Init
NEXT Next
VIEW View
INVARIANT TypeOK
INVARIANT ListDictAgree
INVARIANT KeysDisjoint
INVARIANT NoDuplicates
INVARIANT Owned
INVARIANT MembersOwned
INVARIANT NameClashFree
INVARIANT AddThenDeleteRestores
INVARIANT DeleteThenAddReadmits
PROPERTY ForeignIndexRefused
PROPERTY RejectedIsNoop
PROPERTY OrderKept
PROPERTY ProjectReplaced
INVARIANT EmitPath
CHECK_DEADLOCK FALSE
