----------------------------- MODULE GenProduct -----------------------------
(***************************************************************************)
(* Exhaustive per-element feature products (C01's quantifier: "enumerated  *)
(* exhaustively over per-element feature products").  A product is indexed *)
(* by an integer that is decoded in mixed radix into one value per feature *)
(* dimension, so `Init == seed \in 1..Size` enumerates the FULL cross       *)
(* product and the range can be split over several TLC processes.  Each    *)
(* element is wrapped into a minimal host document.                        *)
(***************************************************************************)
EXTENDS GenDoc

CONSTANT Family     \* "column" | "index" | "table" | "ref" | "enum" | "misc"

\* digit k (1-based) of n in the mixed-radix system `radices`
RECURSIVE Weight(_, _)
Weight(radices, k) == IF k = 1 THEN 1 ELSE radices[k - 1] * Weight(radices, k - 1)
Digit(n, radices, k) == (n \div Weight(radices, k)) % radices[k]
Size(radices) == Weight(radices, Len(radices) + 1)
B(d) == d = 1

NoteKinds == <<"", "a note", "line1\nline2">>
HostEnum == [d |-> "enum", schema |-> "", name |-> "status", items |-> <<[name |-> "new", note |-> "", comment |-> ""]>>, comment |-> ""]
HostEnum2 == [d |-> "enum", schema |-> "s1", name |-> "order status", items |-> <<[name |-> "x-1", note |-> "", comment |-> ""]>>, comment |-> ""]
PlainCol(n) == [name |-> n, type |-> [schema |-> "", name |-> "int", suffix |-> ""], pk |-> FALSE, unique |-> FALSE, notnull |-> FALSE,
                autoinc |-> FALSE, default |-> [k |-> "none", v |-> ""], note |-> "", props |-> <<>>, comment |-> "", refs |-> <<>>]
Tbl(schema, name, alias, cols, idxs) ==
  [d |-> "table", schema |-> schema, name |-> name, alias |-> alias, color |-> "", note |-> "", props |-> <<>>, comment |-> "",
   cols |-> cols, idxs |-> idxs]

ColTypes == PlainTypes \o <<[schema |-> "", name |-> "status", suffix |-> ""], [schema |-> "public", name |-> "status", suffix |-> ""],
                            [schema |-> "s1", name |-> "order status", suffix |-> ""], [schema |-> "s1", name |-> "status", suffix |-> ""]>>
ColRadices == <<2, 2, 2, 2, Len(Defaults), 3, Len(ColTypes), 4>>      \* (name 4: a case variant of its sibling "id")
ColumnDoc(n) ==
  LET dg(k) == Digit(n, ColRadices, k)
      col == [PlainCol(<<"amount", "unit price", "default", "ID">>[dg(8) + 1]) EXCEPT
                !.pk = B(dg(1)), !.unique = B(dg(2)), !.notnull = B(dg(3)), !.autoinc = B(dg(4)),
                !.default = Defaults[dg(5) + 1], !.note = NoteKinds[dg(6) + 1], !.type = ColTypes[dg(7) + 1]]
  IN <<HostEnum, HostEnum2, Tbl("", "items", "", <<PlainCol("id"), col, PlainCol("z")>>, <<>>)>>

IdxSubjects == << <<[k |-> "col", v |-> "id"]>>, <<[k |-> "expr", v |-> "lower(name)"]>>,
                  <<[k |-> "col", v |-> "id"], [k |-> "col", v |-> "unit price"]>>,
                  <<[k |-> "col", v |-> "unit price"], [k |-> "expr", v |-> "id * 2"]>> >>
IdxRadices == <<Len(IdxSubjects), 3, 2, 2, Len(IdxTypes) - 1, 3, 3>>      \* (last: the index stands first, between or after two plain ones)
IndexDoc(n) ==
  LET dg(k) == Digit(n, IdxRadices, k)
      ix == [subj |-> IdxSubjects[dg(1) + 1], name |-> <<"", "idx_1", "it's an index">>[dg(2) + 1], unique |-> B(dg(3)), pk |-> B(dg(4)),
             type |-> IdxTypes[dg(5) + 2], note |-> NoteKinds[dg(6) + 1], comment |-> ""]
      plain == [subj |-> <<[k |-> "col", v |-> "id"]>>, name |-> "", unique |-> FALSE, pk |-> FALSE, type |-> "", note |-> "", comment |-> ""]
      plain2 == [plain EXCEPT !.subj = <<[k |-> "col", v |-> "unit price"]>>, !.unique = TRUE]
  IN <<Tbl("s1", "items", "", <<PlainCol("id"), PlainCol("unit price")>>,
           CASE dg(7) = 0 -> <<ix, plain, plain2>> [] dg(7) = 1 -> <<plain, ix, plain2>> [] OTHER -> <<plain, plain2, ix>>)>>

TblNames == <<"items", "order items", "table", "~u00dc~n~u00ef~">>
TblRadices == <<Len(TblNames), 4, 2, 3, 3, 2>>
TableDoc(n) ==
  LET dg(k) == Digit(n, TblRadices, k)
      t == [Tbl(<<"", "public", "s1", "my schema">>[dg(2) + 1], TblNames[dg(1) + 1], <<"", "it">>[dg(3) + 1],
                <<PlainCol("id")>> \o (IF B(dg(6)) THEN <<PlainCol("name")>> ELSE <<>>), <<>>)
            EXCEPT !.color = <<"", "#abc", "#A1B2C3">>[dg(4) + 1], !.note = NoteKinds[dg(5) + 1]]
  IN <<t>>

\* references: kind x written inline or standalone x how each side is addressed x arity x name x actions
RefActions == <<"", "cascade", "no action", "restrict", "set null", "set default">>
RefRadices == <<4, 2, 3, 3, 2, 3, Len(RefActions), Len(RefActions)>>
AddrMode(mode, schema, name, alias) ==
  IF mode = 2 THEN [schema |-> "", table |-> alias]                        \* by alias
  ELSE IF mode = 1 /\ SchemaOf(schema) = "public" THEN [schema |-> "", table |-> name]   \* bare
  ELSE [schema |-> SchemaOf(schema), table |-> name]                       \* qualified
RefDoc(n) ==
  LET dg(k) == Digit(n, RefRadices, k)
      kind == RefKinds[dg(1) + 1]
      inline == B(dg(2))
      two == B(dg(5)) /\ ~inline
      la == AddrMode(dg(3), "", "orders", "o")
      ra == AddrMode(dg(4), "s1", "users", "u")
      left == [schema |-> la.schema, table |-> la.table, cols |-> IF two THEN <<"user id", "kind">> ELSE <<"user id">>]
      right == [schema |-> ra.schema, table |-> ra.table, cols |-> IF two THEN <<"id", "kind">> ELSE <<"id">>]
      ocols == <<IF inline THEN [PlainCol("user id") EXCEPT !.refs = <<[type |-> kind, addr |-> right]>>] ELSE PlainCol("user id"), PlainCol("kind")>>
      orders == Tbl("", "orders", "o", ocols, <<>>)
      users == Tbl("s1", "users", "u", <<PlainCol("id"), PlainCol("kind")>>, <<>>)
      r == [d |-> "ref", name |-> <<"", "fk name", "fk{1}">>[dg(6) + 1], left |-> left, type |-> kind, right |-> right,
            onupdate |-> RefActions[dg(7) + 1], ondelete |-> RefActions[dg(8) + 1], comment |-> ""]
  IN IF inline THEN (IF dg(6) + dg(7) + dg(8) + dg(3) = 0 THEN <<orders, users>> ELSE <<>>)   \* inline has no name/actions/left address
     ELSE <<r, orders, users>>

EnumRadices == <<3, 3, 3, 4>>
EnumDoc(n) ==
  LET dg(k) == Digit(n, EnumRadices, k)
      items == [i \in 1..(dg(2) + 1) |-> [name |-> EnumItems[i + dg(4)], note |-> IF i = 1 THEN NoteKinds[dg(3) + 1] ELSE "", comment |-> ""]]
  IN <<[d |-> "enum", schema |-> <<"", "s1", "public">>[dg(1) + 1], name |-> EnumNames[dg(4) + 1], items |-> items, comment |-> ""],
       Tbl("", "t", "", <<[PlainCol("c") EXCEPT !.type = [schema |-> <<"", "s1", "public">>[dg(1) + 1], name |-> EnumNames[dg(4) + 1], suffix |-> ""]]>>, <<>>)>>

\* groups, sticky notes, project
MiscRadices == <<3, 3, 3, 3, 3, 3>>
MiscDoc(n) ==
  LET dg(k) == Digit(n, MiscRadices, k)
      t1 == Tbl("", "a", "x", <<PlainCol("id")>>, <<>>)
      t2 == Tbl("s1", "b", "", <<PlainCol("id")>>, <<>>)
      items == SubSeq(<<[schema |-> "", table |-> "x"], [schema |-> "s1", table |-> "b"]>>, 1, dg(1))
  IN <<t1, t2,
       [d |-> "group", name |-> GroupNames[dg(2) + 1], items |-> items, note |-> NoteKinds[dg(3) + 1], color |-> Colors[dg(4) + 3], comment |-> ""],
       [d |-> "sticky", name |-> StickyNames[dg(5) + 1], text |-> Texts[dg(6) + 9]],
       [d |-> "project", name |-> ProjNames[dg(6) + 1], items |-> SubSeq(<<<<"database_type", "PostgreSQL">>, <<"version", "it's 2">>>>, 1, dg(5)),
        note |-> NoteKinds[dg(3) + 1], comment |-> ""]>>

FamilySize == CASE Family = "column" -> Size(ColRadices) [] Family = "index" -> Size(IdxRadices) [] Family = "table" -> Size(TblRadices)
                [] Family = "ref" -> Size(RefRadices) [] Family = "enum" -> Size(EnumRadices) [] Family = "misc" -> Size(MiscRadices)
ProductDoc(n) == CASE Family = "column" -> ColumnDoc(n) [] Family = "index" -> IndexDoc(n) [] Family = "table" -> TableDoc(n)
                   [] Family = "ref" -> RefDoc(n) [] Family = "enum" -> EnumDoc(n) [] Family = "misc" -> MiscDoc(n)

\* seed n (from 1) denotes product element ((n-1) * Stride) mod size: Stride is a prime that divides no
\* family size, so seeds 1..size enumerate the whole product and every prefix is spread over all dimensions
Stride == 7919
PDoc == IF seed <= FamilySize THEN ProductDoc(((seed - 1) * Stride) % FamilySize) ELSE <<>>
PUsable == PDoc # <<>> /\ WellFormed(PDoc)
ProductFaithful == PUsable => NothingDropped(PDoc, ParseDoc(PDoc, TRUE)) /\ Linked(PDoc, ParseDoc(PDoc, TRUE))
EmitProduct == PUsable => PrintT(<<"DOC", seed, ToJson(PDoc)>>)
EmitSize == seed = SeedLo => PrintT(<<"SIZE", FamilySize>>)
=============================================================================
