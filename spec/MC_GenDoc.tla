---- MODULE MC_GenDoc ----
EXTENDS GenDoc
====
