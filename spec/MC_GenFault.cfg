CONSTANTS
  SeedLo = 1
  SeedHi = 100
  WithProps = FALSE
  WithComments = FALSE
INIT FInit
NEXT FNext
INVARIANT Ruled
INVARIANT EmitFault
CHECK_DEADLOCK FALSE
