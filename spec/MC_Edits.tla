---- MODULE MC_Edits ----
EXTENDS Edits
====
