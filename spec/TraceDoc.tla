------------------------------ MODULE TraceDoc ------------------------------
(***************************************************************************)
(* Conformance of the real parser with Doc.tla.                            *)
(*                                                                         *)
(* One trace record per (document, surface form) that the harness printed, *)
(* parsed with the library in /repo and projected:                         *)
(*   [tid, doc, allow, result, links, want]                                *)
(* `want` selects what the caller claims: "model" (C01: result equals      *)
(* ParseDoc), "links" (C05: identity links, back-pointers, lookup and      *)
(* query results), "error" (C06: the rule's error class).                  *)
(* The verdict is total: "" = the observation is what the specification    *)
(* allows; "dev:<finding>" = allowed only by a named as-built deviation;   *)
(* otherwise the name of the first clause that fails.                      *)
(***************************************************************************)
EXTENDS Session, Diff, Json, IOUtils

Traces == ndJsonDeserialize(IOEnv.TRACE_FILE)

\* ---------- C05: links ----------
AllTrue(q) == \A i \in DOMAIN q : q[i]
AllTrue2(q) == \A i \in DOMAIN q : \A j \in DOMAIN q[i] : q[i][j]
Iota(n) == [i \in 1..n |-> i]

LinkClauses(m, L) ==
  << <<"table.database", AllTrue(L.tdb)>>, <<"column.table", AllTrue2(L.cown)>>, <<"column.database", AllTrue2(L.cdb)>>,
     <<"column.note.parent", AllTrue2(L.cnote)>>, <<"table.note.parent", AllTrue(L.tnote)>>,
     <<"index.table", AllTrue2(L.iown)>>, <<"index.note.parent", AllTrue2(L.inote)>>,
     <<"enum.database", AllTrue(L.edb)>>, <<"enumitem.note.parent", AllTrue2(L.enote)>>,
     <<"group.database", AllTrue(L.gdb)>>, <<"group.note.parent", AllTrue(L.gnote)>>,
     <<"ref.database", AllTrue(L.rdb)>>, <<"sticky.database", AllTrue(L.ndb)>>,
     <<"project.database", L.pdb>>, <<"project.note.parent", L.pnote>>,
     <<"iteration", L.iter = Iota(Len(m.tables))>>, <<"iter(enum) / enum[i]", AllTrue(L.eiter)>>,
     <<"iter(group) / group[i]", AllTrue(L.giter)>>, <<"iter(table)", AllTrue(L.titer)>>, <<"db[i]", L.pos = Iota(Len(m.tables))>>,
     <<"db[full_name]", L.full = Iota(Len(m.tables))>>,
     <<"db[alias]", L.alias = [i \in DOMAIN m.tables |-> IF m.tables[i].alias = "" THEN 0 ELSE i]>>,
     <<"table.get_refs", L.getrefs = [t \in DOMAIN m.tables |-> GetRefs(m, t)]>>,
     <<"column.get_refs", L.colrefs = [t \in DOMAIN m.tables |-> [c \in DOMAIN m.tables[t].cols |-> ColGetRefs(m, t, c)]]>>,
     <<"sql key holder", L.sqlrefs = [t \in DOMAIN m.tables |-> SqlRefs(m, t)]>> >>

LinkDiff(m, L) ==
  LET cl == LinkClauses(m, L)
      bad == {i \in DOMAIN cl : ~cl[i][2]}
  IN IF bad = {} THEN "" ELSE "link:" \o cl[CHOOSE i \in bad : \A j \in bad : i <= j][1]

StoreProp(m, s) == IF s.c = 0 THEN [m EXCEPT !.tables[s.t].props = Append(@, <<s.k, s.v>>)]
                   ELSE [m EXCEPT !.tables[s.t].cols[s.c].props = Append(@, <<s.k, s.v>>)]

Verdict(e) ==
  LET exp == ParseDoc(e.doc, e.allow)
      asb == ParseDocAsBuilt(e.doc, e.allow)
      md == ModelDiff(exp, e.result)
  IN \* real documents (the repository's own): no abstract document to compare with; the links the database shows must be
     \* consistent with the content it shows
     IF e.want = "selflinks" THEN (IF e.result.kind # "db" THEN "" ELSE LinkDiff(e.result, e.links))
     ELSE IF e.want \in {"model", "links"} /\ ~WellFormed(e.doc) THEN "generator:not-well-formed"
     ELSE IF e.want = "inert"
          THEN \* C14: extra comments anywhere comments are allowed change nothing but comment attributes
               LET idf == ModelDiff(MaskComments(exp), MaskComments(e.result)) IN
               IF idf = "" THEN "" ELSE "not inert: " \o idf
     ELSE IF e.want # "route" /\ md # "" THEN (IF ModelDiff(asb, e.result) = "" THEN "regression:as-built-resolution-or-comment-equality(" \o md \o ")" ELSE md)
     ELSE IF e.want = "route"
          THEN \* C12: every way of supplying the source, with and without BOM
               LET rd == ModelDiff(ParseCall(e.route, e.bom, e.doc, e.opts), e.result) IN
               IF rd # "" THEN "route " \o e.route \o ": " \o rd
               ELSE IF e.result.kind = "db" /\ e.obs.renderers # ExpectedRenderers(e.route, e.opts)
                    THEN "route " \o e.route \o ": renderer classes " \o e.obs.renderers
               ELSE ""
     ELSE IF e.want = "props"
          THEN \* C15: the same text with the option off is a syntax error iff it uses property syntax;
               \* a property-free document is parsed and rendered identically under both values
               LET off == ParseDoc(e.doc, FALSE)
                   od == ModelDiff(off, e.obs.off)
                   plain == \A i \in DOMAIN e.doc : e.doc[i].d = "table" => ~UsesProps(e.doc[i])
               IN IF od # "" THEN "option-off:" \o od
                  ELSE IF plain /\ ~e.obs.same_dbml THEN "option changes .dbml of a property-free document"
                  ELSE IF plain /\ ~e.obs.same_sql THEN "option changes .sql of a property-free document"
                  \* "stored on THAT table or column": one more property stored in place on one object (chosen by the
                  \* harness) shows on that object and nowhere else
                  ELSE IF exp.kind = "db" /\ e.obs.store.t # 0 /\ ModelDiff(StoreProp(exp, e.obs.store), e.obs.after) # ""
                       THEN "a property stored on one object: " \o ModelDiff(StoreProp(exp, e.obs.store), e.obs.after)
                  ELSE ""
     ELSE IF e.want = "links" /\ exp.kind = "db"
          THEN LinkDiff(exp, e.links)
     ELSE ""

VARIABLE ti
TInit == ti = 1
TNext == /\ ti <= Len(Traces)
         /\ PrintT(<<"VERDICT", Traces[ti].tid, Verdict(Traces[ti])>>)
         /\ ti' = ti + 1
=============================================================================
