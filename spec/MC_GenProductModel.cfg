CONSTANTS
  SeedLo = 1
  SeedHi = 300
  WithProps = FALSE
  WithComments = FALSE
  Family = "ref"
INIT Init
NEXT Next
INVARIANT ProductFaithful
INVARIANT ProductRoundTrip
INVARIANT EmitProductModel
INVARIANT EmitSize
CHECK_DEADLOCK FALSE
