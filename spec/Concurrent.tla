----------------------------- MODULE Concurrent -----------------------------
(***************************************************************************)
(* C11: several parses over the library's module-level grammar objects.    *)
(*                                                                         *)
(* Each process p parses its own document.  Following PyDBMLParser:        *)
(*   SetSyntax(p)   copies the six top-level grammar elements and attaches *)
(*                  p's collecting callback to the COPIES                  *)
(*   Collect(p)     the grammar delivers the next top-level declaration to *)
(*                  every callback attached to the element that matched    *)
(*   Build(p)       one Database.add per collected declaration             *)
(*   Return(p)      the result is what p collected                         *)
(* All interleavings at this granularity are explored.  `shared` is the    *)
(* list of callbacks attached to the module-level elements themselves: it  *)
(* must stay empty (GrammarUntouched), a result must consist of exactly    *)
(* the declarations of the process's own document (ResultIsOwnDocument),   *)
(* and results of different processes share nothing (NoSharing).           *)
(* With SharedAttach = TRUE the callback is attached to the module-level   *)
(* element instead (the natural mutant): TLC then finds the interleaving   *)
(* that violates all three.                                                *)
(***************************************************************************)
EXTENDS Naturals, Sequences, FiniteSets, TLC

CONSTANTS Procs,        \* set of process ids (naturals)
          NDecls,       \* [Procs -> number of top-level declarations of p's document]
          SharedAttach  \* FALSE = as built; TRUE = the mutant

VARIABLES pc,        \* [Procs -> "start" | "collect" | "build" | "done"]
          idx,       \* [Procs -> next declaration to collect / build]
          attached,  \* [Procs -> TRUE once p's callback is attached to p's own copies]
          shared,    \* sequence of process ids whose callback hangs on the module-level elements
          collected, \* [Procs -> sequence of <<owner, k>>: declarations delivered to p]
          sched      \* the interleaving so far (history variable)
vars == <<pc, idx, attached, shared, collected, sched>>

Init == /\ pc = [p \in Procs |-> "start"] /\ idx = [p \in Procs |-> 1]
        /\ attached = [p \in Procs |-> FALSE] /\ shared = <<>>
        /\ collected = [p \in Procs |-> <<>>] /\ sched = <<>>

SetSyntax(p) ==
  /\ pc[p] = "start"
  /\ IF SharedAttach THEN shared' = Append(shared, p) /\ UNCHANGED attached
                     ELSE attached' = [attached EXCEPT ![p] = TRUE] /\ UNCHANGED shared
  /\ pc' = [pc EXCEPT ![p] = IF NDecls[p] = 0 THEN "build" ELSE "collect"]
  /\ sched' = Append(sched, p) /\ UNCHANGED <<idx, collected>>

\* callbacks that fire when p's parse matches a top-level element
Listeners(p) == (IF attached[p] THEN {p} ELSE {}) \cup {shared[i] : i \in DOMAIN shared}

Collect(p) ==
  /\ pc[p] = "collect"
  /\ collected' = [q \in Procs |-> IF q \in Listeners(p) THEN Append(collected[q], <<p, idx[p]>>) ELSE collected[q]]
  /\ IF idx[p] = NDecls[p] THEN pc' = [pc EXCEPT ![p] = "build"] /\ idx' = [idx EXCEPT ![p] = 1]
                           ELSE idx' = [idx EXCEPT ![p] = @ + 1] /\ UNCHANGED pc
  /\ sched' = Append(sched, p) /\ UNCHANGED <<attached, shared>>

Build(p) ==
  /\ pc[p] = "build"
  /\ IF idx[p] > Len(collected[p]) THEN pc' = [pc EXCEPT ![p] = "done"] /\ UNCHANGED idx
                                   ELSE idx' = [idx EXCEPT ![p] = @ + 1] /\ UNCHANGED pc
  /\ sched' = Append(sched, p) /\ UNCHANGED <<attached, shared, collected>>

Next == \E p \in Procs : SetSyntax(p) \/ Collect(p) \/ Build(p)
Spec == Init /\ [][Next]_vars

GrammarUntouched == shared = <<>>
ResultIsOwnDocument == \A p \in Procs : pc[p] = "done" => collected[p] = [k \in 1..NDecls[p] |-> <<p, k>>]
NoSharing == \A p, q \in Procs : p # q => {collected[p][i] : i \in DOMAIN collected[p]} \cap {collected[q][i] : i \in DOMAIN collected[q]} = {}
AllDone == \A p \in Procs : pc[p] = "done"
EmitSchedule == AllDone => PrintT(<<"SCHED", sched>>)
=============================================================================
