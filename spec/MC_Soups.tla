---- MODULE MC_Soups ----
EXTENDS Soups
====
