----------------------------- MODULE TraceDbml -----------------------------
(***************************************************************************)
(* Conformance of the DBML renderer (C02, and the output side of C13, C14, *)
(* C15).  One record per database under test:                              *)
(*   [tid, model, s0, s1, fix]                                             *)
(* model  the content the database was parsed/built from (Doc!ParseDoc of  *)
(*        the generated document)                                          *)
(* s0     projection of the database under test                            *)
(* s1     projection of PyDBML(db.dbml), or [kind |-> "error", class]      *)
(* fix    db.dbml = PyDBML(db.dbml).dbml, byte for byte                    *)
(* The verdict is a tuple <<binding, content, fixpoint, comments, props>>, *)
(* "" meaning the clause holds; "dev:<id>" a named as-designed deviation.  *)
(***************************************************************************)
EXTENDS DbmlOut, Diff, Json, IOUtils

Traces == ndJsonDeserialize(IOEnv.TRACE_FILE)

NoRefs(m) == [m EXCEPT !.refs = <<>>]
OnlyComments(m) ==   \* the comment attributes on the positions where re-parsing is promised
  [tc |-> [t \in DOMAIN m.tables |-> m.tables[t].comment],
   ic |-> [t \in DOMAIN m.tables |-> [x \in DOMAIN m.tables[t].idxs |-> m.tables[t].idxs[x].comment]],
   cc |-> [t \in DOMAIN m.tables |-> [c \in DOMAIN m.tables[t].cols |-> m.tables[t].cols[c].comment]],
   ec |-> [i \in DOMAIN m.enums |-> m.enums[i].comment],
   eic |-> [i \in DOMAIN m.enums |-> [c \in DOMAIN m.enums[i].items |-> m.enums[i].items[c].comment]],
   rc |-> {<<[r EXCEPT !.comment = ""], r.comment>> : r \in {m.refs[i] : i \in {j \in DOMAIN m.refs : ~m.refs[j].inline}}},
   gc |-> [g \in DOMAIN m.groups |-> m.groups[g].comment],
   pc |-> m.project.comment]
CommentFields == <<"tc", "ic", "cc", "ec", "eic", "rc", "gc", "pc">>
OnlyProps(m) == [t \in DOMAIN m.tables |-> <<m.tables[t].props, [c \in DOMAIN m.tables[t].cols |-> m.tables[t].cols[c].props]>>]

(***************************************************************************)
(* Known as-built deviations of the DBML renderer, each with a precise     *)
(* guard and effect (known_findings.json; all are pinned by the            *)
(* repository's own tests, so they cannot be repaired without editing      *)
(* those tests):                                                           *)
(*  F-C02a  a default that is falsy in Python (0, 0.0, false, '') is not   *)
(*          rendered: after the round trip the column has no default       *)
(*  F-C02d  a multi-line note written in a settings list (column, index,   *)
(*          enum item) is indented with its element, so its continuation   *)
(*          lines gain indentation on every cycle: that note's text is not *)
(*          compared, and the second rendering may differ                  *)
(*  F-C02e  references come back in collected order (inline ones at their  *)
(*          table, then the standalone ones), see DbmlOut!RefOrderKept     *)
(*  F-C02f  a column's comment is rendered above the column, where the     *)
(*          grammar does not capture it: column comments are lost          *)
(***************************************************************************)
Falsy(df) == df \in {[k |-> "int", v |-> "0"], [k |-> "float", v |-> "0.0"], [k |-> "bool", v |-> "false"], [k |-> "str", v |-> ""]}
MultiLine(s) == \E i \in 1..Len(s) : SubSeq(s, i, i) = "\n"

DropFalsy(m) ==
  [m EXCEPT !.tables = [t \in DOMAIN @ |-> [@[t] EXCEPT !.cols = [c \in DOMAIN @ |->
       IF Falsy(@[c].default) THEN [@[c] EXCEPT !.default = [k |-> "none", v |-> ""]] ELSE @[c]]]]]

\* blank, in x, the settings notes that are multi-line in the reference model w
BlankDriftingNotes(x, w) ==
  [x EXCEPT
     !.tables = [t \in DOMAIN @ |-> IF t \notin DOMAIN w.tables THEN @[t] ELSE
                  [@[t] EXCEPT
                     !.cols = [c \in DOMAIN @ |-> IF c \in DOMAIN w.tables[t].cols /\ MultiLine(w.tables[t].cols[c].note)
                                                 THEN [@[c] EXCEPT !.note = ""] ELSE @[c]],
                     !.idxs = [i \in DOMAIN @ |-> IF i \in DOMAIN w.tables[t].idxs /\ MultiLine(w.tables[t].idxs[i].note)
                                                 THEN [@[i] EXCEPT !.note = ""] ELSE @[i]]]],
     !.enums = [n \in DOMAIN @ |-> IF n \notin DOMAIN w.enums THEN @[n] ELSE
                  [@[n] EXCEPT !.items = [c \in DOMAIN @ |-> IF c \in DOMAIN w.enums[n].items /\ MultiLine(w.enums[n].items[c].note)
                                                            THEN [@[c] EXCEPT !.note = ""] ELSE @[c]]]]]
HasDriftingNote(w) == BlankDriftingNotes(w, w) # w

\* F-C15a: a multi-line property value is written as '''<newline>value''' inside an indented block and
\* is not normalised when parsed: it comes back with a leading line break and indentation
\* F-C02j: a multi-line project field value is indented with the project body (pinned by
\* test_project::TestRenderItems::test_multiline)
BlankPairs(ps, wps) == [i \in DOMAIN ps |-> IF i \in DOMAIN wps /\ MultiLine(wps[i][2]) THEN <<ps[i][1], "">> ELSE ps[i]]
BlankDriftingProps(x, w) ==
  [x EXCEPT !.tables = [t \in DOMAIN @ |-> IF t \notin DOMAIN w.tables THEN @[t] ELSE
      [@[t] EXCEPT !.props = BlankPairs(@, w.tables[t].props),
                   !.cols = [c \in DOMAIN @ |-> IF c \notin DOMAIN w.tables[t].cols THEN @[c]
                                                ELSE [@[c] EXCEPT !.props = BlankPairs(@, w.tables[t].cols[c].props)]]]]]
BlankDriftingItems(x, w) == [x EXCEPT !.project.items = BlankPairs(@, w.project.items)]
HasDrifting(w) == HasDriftingNote(w) \/ BlankDriftingProps(w, w) # w \/ BlankDriftingItems(w, w) # w

\* F-C02h: a STRING default that spells true or false (any case) is rendered bare and comes back as a boolean
\* (pinned by test_dbml/test_column.py::test_default_to_str["False"-"false"])
BoolSpelling(v) == CASE v \in {"true", "True", "TRUE"} -> "true" [] v \in {"false", "False", "FALSE"} -> "false" [] OTHER -> ""
BoolCol(col) == IF col.default.k = "str" /\ BoolSpelling(col.default.v) # ""
                THEN [col EXCEPT !.default = [k |-> "bool", v |-> BoolSpelling(col.default.v)]] ELSE col
Boolify(m) == [m EXCEPT !.tables = [t \in DOMAIN @ |-> [@[t] EXCEPT !.cols = [c \in DOMAIN @ |-> BoolCol(@[c])]]]]

DevIds == <<"F-C02a", "F-C02d", "F-C02e", "F-C02h", "F-C02j", "F-C15a">>
AllDevs == {DevIds[i] : i \in DOMAIN DevIds}
ApplyWant(S, w, m) ==
  LET w0 == IF "F-C02a" \in S THEN DropFalsy(w) ELSE w     \* decided on the ORIGINAL value: the string 'False' is truthy, it is rendered
      w1 == IF "F-C02h" \in S THEN Boolify(w0) ELSE w0
      w2 == IF "F-C02e" \in S THEN [w1 EXCEPT !.refs = MaskComments(Reparsed(m)).refs] ELSE w1
      w3 == IF "F-C02d" \in S THEN BlankDriftingNotes(w2, w) ELSE w2
      w4 == IF "F-C15a" \in S THEN BlankDriftingProps(w3, w) ELSE w3
  IN IF "F-C02j" \in S THEN BlankDriftingItems(w4, w) ELSE w4
ApplyGot(S, g, w) ==
  LET g1 == IF "F-C02d" \in S THEN BlankDriftingNotes(g, w) ELSE g
      g2 == IF "F-C15a" \in S THEN BlankDriftingProps(g1, w) ELSE g1
  IN IF "F-C02j" \in S THEN BlankDriftingItems(g2, w) ELSE g2

JoinIds(S) == FoldLeft(LAMBDA acc, d : IF d \in S THEN (IF acc = "" THEN "dev:" \o d ELSE acc \o "+" \o d) ELSE acc, "", DevIds)

Verdict(e) ==
  LET m == e.model
      want == MaskComments(Shown(m))
      got == MaskComments(e.s1)
      binding == ModelDiff(m, e.s0)
      fits == {S \in SUBSET AllDevs : ModelDiff(ApplyWant(S, want, m), ApplyGot(S, got, want)) = ""}
      content ==
        IF e.s1.kind = "error" THEN "re-parse fails with " \o e.s1.class
        ELSE IF ModelDiff(want, got) = "" THEN ""
        ELSE IF fits = {} THEN ModelDiff(ApplyWant(AllDevs, want, m), ApplyGot(AllDevs, got, want))
        ELSE JoinIds(CHOOSE S \in fits : \A T \in fits : Cardinality(S) <= Cardinality(T))
      fixpoint == IF e.s1.kind = "error" THEN "" ELSE IF e.fix THEN ""
                  ELSE IF Boolify(want) # want THEN "dev:F-C02h"      \* true -> True, false -> (dropped) on the next cycle
                  ELSE IF HasDriftingNote(want) THEN "dev:F-C02d"
                  \* F-C02f: column comments are lost by the first round trip, so the second rendering lacks them
                  ELSE IF \E t \in DOMAIN m.tables : \E k \in DOMAIN m.tables[t].cols : m.tables[t].cols[k].comment # "" THEN "dev:F-C02f"
                  ELSE IF BlankDriftingProps(want, want) # want THEN "dev:F-C15a"
                  ELSE IF BlankDriftingItems(want, want) # want THEN "dev:F-C02j"
                  ELSE "second rendering differs"
      comments == IF e.s1.kind = "error" THEN ""
                  ELSE LET f == RecDiff(CommentFields, OnlyComments(m), OnlyComments(e.s1)) IN
                       IF f = "" THEN ""
                       \* F-C02f exactly: every column comment is LOST (written above the column, where the grammar skips it);
                       \* a column comment that comes back changed, or on another column, is not the known finding
                       ELSE IF f = "cc" /\ RecDiff(CommentFields, [OnlyComments(m) EXCEPT !.cc = <<>>], [OnlyComments(e.s1) EXCEPT !.cc = <<>>]) = ""
                               /\ \A t \in DOMAIN OnlyComments(e.s1).cc : \A k \in DOMAIN OnlyComments(e.s1).cc[t] : OnlyComments(e.s1).cc[t][k] = ""
                            THEN "dev:F-C02f"
                       ELSE "comment lost or changed: " \o f
      props == IF e.s1.kind = "error" THEN "re-parse fails with " \o e.s1.class
               ELSE IF e.s1.allowprops # m.allowprops THEN "allow_properties"
               ELSE IF OnlyProps(Shown(m)) = OnlyProps(e.s1) THEN ""
               ELSE IF OnlyProps(BlankDriftingProps(Shown(m), Shown(m))) = OnlyProps(BlankDriftingProps(e.s1, Shown(m))) THEN "dev:F-C15a"
               ELSE "properties"
  IN <<binding, content, fixpoint, comments, props>>

VARIABLE ti
TInit == ti = 1
TNext == /\ ti <= Len(Traces)
         /\ PrintT(<<"VERDICT", Traces[ti].tid>> \o Verdict(Traces[ti]))
         /\ ti' = ti + 1
=============================================================================
