CONSTANT MaxSteps = 3
INIT TInit
NEXT TNext
CHECK_DEADLOCK FALSE
