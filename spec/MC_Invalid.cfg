CONSTANT MaxSteps = 3
INIT Init
NEXT Next
INVARIANT EmitHist
CHECK_DEADLOCK FALSE
