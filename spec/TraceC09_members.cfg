CONSTANTS
  Tables <- MC_Tables
  Cols <- MC_Cols
  Idxs <- MC_Idxs
  Refs <- MC_Refs
  Enums <- MC_Enums
  Groups <- MC_Groups
  Stickies <- MC_Stickies
  Projects <- MC_Projects
  Junk <- MC_Junk
  TableInit <- MC_TableInit
  ColSig <- MC_ColSig
  ColName <- MC_ColName
  IdxSig <- MC_IdxSig
  IdxSubj <- MC_IdxSubj
  RefSig <- MC_RefSig
  RefC1 <- MC_RefC1
  RefC2 <- MC_RefC2
  EnumName <- MC_EnumName
  GroupName <- MC_GroupName
  RenameNames <- MC_RenameNames
  RenameSchemas <- MC_RenameSchemas
  RenameAliases <- MC_RenameAliases
  Ops <- MC_Ops
  Deviations <- MC_Deviations
INIT TInit
NEXT TNext
CHECK_DEADLOCK FALSE
