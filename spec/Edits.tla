------------------------------- MODULE Edits -------------------------------
(***************************************************************************)
(* C10: in-place edits of a database's objects as transitions of the       *)
(* model.  Links are positions, so a rename shows up wherever the element  *)
(* is mentioned: "no rendering keeps a stale name" is then the statement   *)
(* that the edited objects render like a database FRESHLY BUILT from the   *)
(* final model.  ApplyEdit gives the edit semantics; the harness applies   *)
(* the same edit to the real objects and TLC checks after every step that  *)
(* the projection of the real database equals the model.                   *)
(***************************************************************************)
EXTENDS GenDoc

NewNames == <<"renamed_1", "new name 2", "Renamed3", "r_4", "~u00e9~dit 5", "table", "x6">>
NewTexts == <<"edited note", "it's edited", "two\nlines edited", "">>
\* (an action may be assigned in any letter case: the attribute is a plain string)
EditActions == Actions \o <<"CASCADE", "SET NULL", "No Action">>
NewTypes == <<"bigint", "varchar(64)", "numeric(8, 3)", "uuid[]">>

ToggleFlag(col, f) ==
  CASE f = "pk" -> [col EXCEPT !.pk = ~@] [] f = "unique" -> [col EXCEPT !.unique = ~@]
    [] f = "notnull" -> [col EXCEPT !.notnull = ~@] [] f = "autoinc" -> [col EXCEPT !.autoinc = ~@]

\* removal of a top-level element: links are positions, so everything behind the removed position moves up by one
Down(i, gone) == IF i > gone THEN i - 1 ELSE i
DropTable(m, t) ==
  [m EXCEPT !.tables = RemoveAt(@, t),
            !.refs = [i \in DOMAIN @ |-> [@[i] EXCEPT !.t1 = Down(@, t), !.t2 = Down(@, t)]],
            !.groups = [i \in DOMAIN @ |-> [@[i] EXCEPT !.items = [j \in DOMAIN @ |-> Down(@[j], t)]]]]
DropEnum(m, x) ==
  [m EXCEPT !.enums = RemoveAt(@, x),
            !.tables = [i \in DOMAIN @ |-> [@[i] EXCEPT !.cols = [j \in DOMAIN @ |->
                          IF @[j].type.k = "enum" THEN [@[j] EXCEPT !.type = [k |-> "enum", e |-> Down(@.e, x)]] ELSE @[j]]]]]
TableFree(m, t) == /\ \A i \in DOMAIN m.refs : m.refs[i].t1 # t /\ m.refs[i].t2 # t
                   /\ \A i \in DOMAIN m.groups : \A j \in DOMAIN m.groups[i].items : m.groups[i].items[j] # t
EnumFree(m, x) == \A i \in DOMAIN m.tables : \A j \in DOMAIN m.tables[i].cols :
                     ~(m.tables[i].cols[j].type.k = "enum" /\ m.tables[i].cols[j].type.e = x)

ApplyEdit(m, e) ==
  CASE e.op = "table_name"   -> [m EXCEPT !.tables[e.t].name = e.v]
    [] e.op = "table_schema" -> [m EXCEPT !.tables[e.t].schema = e.v]
    [] e.op = "table_alias"  -> [m EXCEPT !.tables[e.t].alias = e.v]
    [] e.op = "table_note"   -> [m EXCEPT !.tables[e.t].note = e.v]
    [] e.op = "col_name"     -> [m EXCEPT !.tables[e.t].cols[e.c].name = e.v]
    [] e.op = "col_type"     -> [m EXCEPT !.tables[e.t].cols[e.c].type = e.ty]
    [] e.op = "col_flag"     -> [m EXCEPT !.tables[e.t].cols[e.c] = ToggleFlag(@, e.v)]
    [] e.op = "col_default"  -> [m EXCEPT !.tables[e.t].cols[e.c].default = e.df]
    [] e.op = "col_note"     -> [m EXCEPT !.tables[e.t].cols[e.c].note = e.v]
    \* a default assigned twice in a row: first a value, then one that COMPARES equal to it in the host language but is
    \* another value (0, 0.0, false): the second assignment counts
    [] e.op = "default_retyped" -> [m EXCEPT !.tables[e.t].cols[e.c].default = e.df]
    [] e.op = "enum_name"    -> [m EXCEPT !.enums[e.e].name = e.v]
    [] e.op = "ref_type"     -> [m EXCEPT !.refs[e.r].type = e.v]
    [] e.op = "ref_inline"   -> [m EXCEPT !.refs[e.r].inline = e.b]
    [] e.op = "ref_name"     -> [m EXCEPT !.refs[e.r].name = e.v]
    [] e.op = "ref_actions"  -> [m EXCEPT !.refs[e.r].onupdate = e.u, !.refs[e.r].ondelete = e.d]
    [] e.op = "add_column"   -> [m EXCEPT !.tables[e.t].cols = Append(@, e.col)]
    [] e.op = "add_index"    -> [m EXCEPT !.tables[e.t].idxs = Append(@, e.idx)]
    [] e.op = "remove_index" -> [m EXCEPT !.tables[e.t].idxs = RemoveAt(@, e.x)]
    [] e.op = "dup_index"    -> [m EXCEPT !.tables[e.t].idxs = Append(@, @[e.x])]      \* a second index equal to index x
    [] e.op = "add_enum_item" -> [m EXCEPT !.enums[e.e].items = Append(@, e.item)]
    \* an item renamed in place, then an item added under the name that has just become free (two steps, one edit kind)
    [] e.op = "rename_item_add_old" -> [m EXCEPT !.enums[e.e].items = Append([@ EXCEPT ![e.k].name = e.v], [name |-> e.old, note |-> "", comment |-> ""])]
    \* additions and removals of top-level elements (the quantifier of C10: "attribute edits and element additions/removals")
    [] e.op = "add_table"    -> [m EXCEPT !.tables = Append(@, e.table)]
    [] e.op = "delete_table" -> DropTable(m, e.t)
    [] e.op = "add_ref"      -> [m EXCEPT !.refs = Append(@, e.ref)]
    [] e.op = "delete_ref"   -> [m EXCEPT !.refs = RemoveAt(@, e.r)]
    [] e.op = "add_enum"     -> [m EXCEPT !.enums = Append(@, e.enum)]
    [] e.op = "delete_enum"  -> DropEnum(m, e.e)
    [] e.op = "add_group"    -> [m EXCEPT !.groups = Append(@, e.group)]
    [] e.op = "delete_group" -> [m EXCEPT !.groups = RemoveAt(@, e.g)]
    [] e.op = "add_sticky"   -> [m EXCEPT !.notes = Append(@, e.note)]
    [] e.op = "set_project"  -> [m EXCEPT !.project = e.project]
    [] e.op = "delete_project" -> [m EXCEPT !.project = NoProject]
    [] e.op = "skip"         -> m

\* (flag edits are listed several times: the layout of PRIMARY KEY clauses depends on how many pk columns a table has)
EditOps == <<"table_name", "table_schema", "table_alias", "table_note", "col_name", "col_type", "col_flag", "col_flag", "col_flag", "col_default", "default_retyped",
             "col_note", "enum_name", "ref_type", "ref_inline", "ref_name", "ref_actions", "add_column", "add_index",
             "remove_index", "remove_index", "dup_index", "add_enum_item", "rename_item_add_old",
             "add_table", "delete_table", "add_ref", "add_ref", "delete_ref", "add_enum", "delete_enum", "add_group", "delete_group", "add_sticky",
             "set_project", "delete_project">>

\* the i-th edit of a seed, chosen in the current model m (positions must exist; otherwise "skip")
ChooseEdit(sd, i, m) ==
  IF m.tables = <<>> THEN [op |-> "skip"] ELSE
  \* steering: once a table holds two EQUAL indexes (dup_index), the next edits prefer that table and the removal of an
  \* index from it -- a state worth probing is probed instead of being left behind by the next random choice
  LET twinTabs == SelectSeq([x \in DOMAIN m.tables |-> x],
                            LAMBDA x : \E a, b \in DOMAIN m.tables[x].idxs : a < b /\ m.tables[x].idxs[a] = m.tables[x].idxs[b])
      steer == twinTabs # <<>> /\ Coin(sd, K(50 + i, 0, 12), 50)
      op == IF steer THEN "remove_index" ELSE Pick(sd, K(50 + i, 0, 1), EditOps)
      t == IF steer THEN twinTabs[1] ELSE Num(sd, K(50 + i, 0, 2), 1, Len(m.tables))
      c == Num(sd, K(50 + i, 0, 3), 1, Len(m.tables[t].cols))
      fresh == NewNames[((H(sd, K(50 + i, 0, 4)) + i) % Len(NewNames)) + 1] \o "_" \o ToString(i)
      nonm2m == SelectSeq([r \in DOMAIN m.refs |-> r], LAMBDA r : m.refs[r].type # "<>")
      skip == [op |-> "skip"]
  IN
  CASE op = "table_name"   -> [op |-> op, t |-> t, v |-> fresh]
    [] op = "table_schema" -> [op |-> op, t |-> t, v |-> Pick(sd, K(50 + i, 0, 5), <<"public", "s1", "other schema">>)]
    [] op = "table_alias"  -> [op |-> op, t |-> t, v |-> IF Coin(sd, K(50 + i, 0, 5), 30) THEN "" ELSE fresh]
    [] op = "table_note"   -> [op |-> op, t |-> t, v |-> Pick(sd, K(50 + i, 0, 5), NewTexts)]
    [] op = "col_name"     -> [op |-> op, t |-> t, c |-> c, v |-> fresh]
    [] op = "col_type"     -> [op |-> op, t |-> t, c |-> c,
                               ty |-> IF m.enums # <<>> /\ Coin(sd, K(50 + i, 0, 5), 50)
                                      THEN [k |-> "enum", e |-> Num(sd, K(50 + i, 0, 6), 1, Len(m.enums))]
                                      ELSE [k |-> "str", v |-> Pick(sd, K(50 + i, 0, 7), NewTypes)]]
    [] op = "col_flag"     -> [op |-> op, t |-> t, c |-> c, v |-> Pick(sd, K(50 + i, 0, 5), <<"pk", "pk", "pk", "unique", "notnull", "autoinc">>)]
    [] op = "default_retyped" ->
         LET zeros == <<[k |-> "int", v |-> "0"], [k |-> "float", v |-> "0.0"], [k |-> "bool", v |-> "false"]>>
             a == Num(sd, K(50 + i, 0, 5), 1, 3)
             b == ((a + Num(sd, K(50 + i, 0, 6), 0, 1)) % 3) + 1 IN
         [op |-> op, t |-> t, c |-> c, first |-> zeros[a], df |-> zeros[b]]
    [] op = "col_default"  -> [op |-> op, t |-> t, c |-> c, df |-> ModelDefault(Pick(sd, K(50 + i, 0, 5), Defaults))]
    [] op = "col_note"     -> [op |-> op, t |-> t, c |-> c, v |-> Pick(sd, K(50 + i, 0, 5), NewTexts)]
    [] op = "enum_name"    -> IF m.enums = <<>> THEN skip ELSE [op |-> op, e |-> Num(sd, K(50 + i, 0, 5), 1, Len(m.enums)), v |-> fresh]
    \* any reference may change its kind, many-to-many included, and carry the inline flag while it is many-to-many
    [] op = "ref_type"     -> IF m.refs = <<>> THEN skip
                              ELSE [op |-> op, r |-> Num(sd, K(50 + i, 0, 5), 1, Len(m.refs)), v |-> Pick(sd, K(50 + i, 0, 6), <<">", "<", "-", "<>", ">">>)]
    [] op = "ref_inline"   -> IF m.refs = <<>> THEN skip ELSE [op |-> op, r |-> Num(sd, K(50 + i, 0, 5), 1, Len(m.refs)), b |-> Coin(sd, K(50 + i, 0, 6), 50)]
    [] op = "ref_name"     -> IF m.refs = <<>> THEN skip ELSE [op |-> op, r |-> Num(sd, K(50 + i, 0, 5), 1, Len(m.refs)), v |-> IF Coin(sd, K(50 + i, 0, 6), 30) THEN "" ELSE fresh]
    [] op = "ref_actions"  -> IF m.refs = <<>> THEN skip
                              ELSE [op |-> op, r |-> Num(sd, K(50 + i, 0, 5), 1, Len(m.refs)), u |-> Pick(sd, K(50 + i, 0, 6), EditActions), d |-> Pick(sd, K(50 + i, 0, 7), EditActions)]
    [] op = "add_column"   -> [op |-> op, t |-> t,
                               col |-> [name |-> fresh, type |-> [k |-> "str", v |-> Pick(sd, K(50 + i, 0, 5), NewTypes)],
                                        pk |-> Coin(sd, K(50 + i, 0, 6), 30), unique |-> Coin(sd, K(50 + i, 0, 7), 30), notnull |-> FALSE, autoinc |-> FALSE,
                                        default |-> [k |-> "none", v |-> ""], note |-> "", props |-> <<>>, comment |-> ""]]
    [] op = "add_index"    -> [op |-> op, t |-> t,
                               idx |-> [subj |-> <<[k |-> "col", i |-> c]>>, name |-> IF Coin(sd, K(50 + i, 0, 5), 50) THEN fresh ELSE "",
                                        unique |-> Coin(sd, K(50 + i, 0, 6), 50), pk |-> FALSE, type |-> Pick(sd, K(50 + i, 0, 7), IdxTypes), note |-> "", comment |-> ""]]
    [] op = "remove_index" -> IF m.tables[t].idxs = <<>> THEN skip
                              \* mostly the LAST index (an equal twin, if there is one, then sits before it)
                              ELSE [op |-> op, t |-> t, x |-> IF Coin(sd, K(50 + i, 0, 6), 60) THEN Len(m.tables[t].idxs)
                                                              ELSE Num(sd, K(50 + i, 0, 5), 1, Len(m.tables[t].idxs))]
    [] op = "dup_index"    -> IF m.tables[t].idxs = <<>> THEN skip ELSE [op |-> op, t |-> t, x |-> Num(sd, K(50 + i, 0, 5), 1, Len(m.tables[t].idxs))]
    [] op = "add_enum_item" -> IF m.enums = <<>> THEN skip
                               ELSE [op |-> op, e |-> Num(sd, K(50 + i, 0, 5), 1, Len(m.enums)), item |-> [name |-> fresh, note |-> "", comment |-> ""]]
    [] op = "rename_item_add_old" ->
         IF m.enums = <<>> THEN skip
         ELSE LET en == Num(sd, K(50 + i, 0, 5), 1, Len(m.enums))
                  k == Num(sd, K(50 + i, 0, 6), 1, Len(m.enums[en].items)) IN
              [op |-> op, e |-> en, k |-> k, v |-> fresh, old |-> m.enums[en].items[k].name]
    [] op = "add_table"    -> [op |-> op, table |-> [schema |-> Pick(sd, K(50 + i, 0, 5), <<"public", "public", "s1">>), name |-> fresh, alias |-> "",
                                                     color |-> "", note |-> Pick(sd, K(50 + i, 0, 6), NewTexts), props |-> <<>>, comment |-> "",
                                                     cols |-> <<[name |-> "id", type |-> [k |-> "str", v |-> "int"], pk |-> TRUE, unique |-> FALSE,
                                                                 notnull |-> FALSE, autoinc |-> FALSE, default |-> [k |-> "none", v |-> ""],
                                                                 note |-> "", props |-> <<>>, comment |-> ""]>>,
                                                     idxs |-> <<>>]]
    [] op = "delete_table" -> LET free == SelectSeq([x \in DOMAIN m.tables |-> x], LAMBDA x : TableFree(m, x)) IN
                              IF free = <<>> \/ Len(m.tables) = 1 THEN skip ELSE [op |-> op, t |-> Pick(sd, K(50 + i, 0, 5), free)]
    [] op = "add_ref"      -> LET t2 == Num(sd, K(50 + i, 0, 5), 1, Len(m.tables))
                                  kind == Pick(sd, K(50 + i, 0, 7), RefKinds)
                              IN [op |-> op, ref |-> [type |-> kind, name |-> IF Coin(sd, K(50 + i, 0, 8), 30) THEN fresh ELSE "",
                                                      onupdate |-> Pick(sd, K(50 + i, 0, 9), Actions), ondelete |-> Pick(sd, K(50 + i, 0, 10), Actions),
                                                      comment |-> "", inline |-> Coin(sd, K(50 + i, 0, 11), 40),
                                                      t1 |-> t, c1 |-> <<c>>, t2 |-> t2, c2 |-> <<Num(sd, K(50 + i, 0, 6), 1, Len(m.tables[t2].cols))>>]]
    [] op = "delete_ref"   -> IF m.refs = <<>> THEN skip ELSE [op |-> op, r |-> Num(sd, K(50 + i, 0, 5), 1, Len(m.refs))]
    [] op = "add_enum"     -> [op |-> op, enum |-> [schema |-> Pick(sd, K(50 + i, 0, 5), <<"public", "s1">>), name |-> fresh,
                                                    items |-> <<[name |-> "one", note |-> "", comment |-> ""], [name |-> "two", note |-> "", comment |-> ""]>>,
                                                    comment |-> ""]]
    [] op = "delete_enum"  -> LET free == SelectSeq([x \in DOMAIN m.enums |-> x], LAMBDA x : EnumFree(m, x)) IN
                              IF free = <<>> THEN skip ELSE [op |-> op, e |-> Pick(sd, K(50 + i, 0, 5), free)]
    [] op = "add_group"    -> [op |-> op, group |-> [name |-> fresh, items |-> IF Coin(sd, K(50 + i, 0, 5), 70) THEN <<t>> ELSE <<>>,
                                                     note |-> Pick(sd, K(50 + i, 0, 6), NewTexts), color |-> "", comment |-> ""]]
    [] op = "delete_group" -> IF m.groups = <<>> THEN skip ELSE [op |-> op, g |-> Num(sd, K(50 + i, 0, 5), 1, Len(m.groups))]
    [] op = "add_sticky"   -> [op |-> op, note |-> [name |-> fresh, text |-> Pick(sd, K(50 + i, 0, 5), NewTexts)]]
    [] op = "set_project"  -> [op |-> op, project |-> [present |-> TRUE, name |-> fresh, items |-> <<>>, note |-> Pick(sd, K(50 + i, 0, 5), NewTexts),
                                                       comment |-> ""]]
    [] op = "delete_project" -> IF m.project.present THEN [op |-> op] ELSE skip

\* the edit domain: an edit must leave a database that the container itself would accept (no two
\* tables under one key, no two identical references); others are replaced by "skip"
Consistent(m) ==
  /\ \A i, j \in DOMAIN m.tables : i # j =>
        ({m.tables[i].schema \o "." \o m.tables[i].name} \cup (IF m.tables[i].alias = "" THEN {} ELSE {m.tables[i].alias}))
        \cap ({m.tables[j].schema \o "." \o m.tables[j].name} \cup (IF m.tables[j].alias = "" THEN {} ELSE {m.tables[j].alias})) = {}
  /\ \A i, j \in DOMAIN m.refs : i # j => ~SameRef(m.refs[i], m.refs[j], TRUE)
  /\ \A i, j \in DOMAIN m.enums : i # j => <<m.enums[i].schema, m.enums[i].name>> # <<m.enums[j].schema, m.enums[j].name>>

RECURSIVE Run(_, _, _, _)
\* -> sequence of [edit, after] for edits i..n applied from model m
Run(sd, i, n, m) ==
  IF i > n THEN <<>>
  ELSE LET e0 == TLCEval(ChooseEdit(sd, i, m))
           e == TLCEval(IF Consistent(ApplyEdit(m, e0)) THEN e0 ELSE [op |-> "skip"])
           m2 == TLCEval(ApplyEdit(m, e))      \* TLCEval: evaluate once, not once per use down the recursion
       IN <<[edit |-> e, after |-> m2]>> \o Run(sd, i + 1, n, m2)

CONSTANT MaxEdits
NEdits(sd) == Num(sd, 49, 1, MaxEdits)
DocOf(sd) == IF WithComments THEN Commented(sd, RandDocP(sd, WithProps)) ELSE RandDocP(sd, WithProps)
\* A reference REMEMBERS the inline flag it was given even while it is many-to-many (where the flag has no effect and the
\* public property reads FALSE): re-typed to > < - it is inline again.  In this module refs[i].inline is that remembered
\* flag; Eff gives what an observer sees.  A parsed reference remembers how it was declared.
Stored(m, doc) == IF m.kind # "db" THEN m
                  ELSE [m EXCEPT !.refs = [i \in DOMAIN m.refs |-> [m.refs[i] EXCEPT !.inline = CollectedRefs(doc)[i].inline]]]
Eff(m) == IF m.kind # "db" THEN m
          ELSE [m EXCEPT !.refs = [i \in DOMAIN m.refs |-> [m.refs[i] EXCEPT !.inline = m.refs[i].inline /\ m.refs[i].type # "<>"]]]
StoredModelOf(sd) == TLCEval(Stored(ParseDoc(DocOf(sd), WithProps), DocOf(sd)))
HistoryOf(sd) == IF WellFormed(DocOf(sd)) THEN Run(sd, 1, NEdits(sd), StoredModelOf(sd)) ELSE <<>>
Model0 == Stored(ParseDoc(TheDoc, WithProps), TheDoc)
\* design level: what is observable of the stored model is exactly what the parser model says
StoredIsParsed == WellFormed(TheDoc) => Eff(Model0) = ParseDoc(TheDoc, WithProps)
History == HistoryOf(seed)
\* design level: an edit touches only what it names (sizes of the other lists are kept)
\* (top-level lists change their length by at most one per edit, and every link still points inside its list)
LinksInside(m) == /\ \A i \in DOMAIN m.refs : m.refs[i].t1 \in DOMAIN m.tables /\ m.refs[i].t2 \in DOMAIN m.tables
                                               /\ (\A j1 \in DOMAIN m.refs[i].c1 : m.refs[i].c1[j1] \in DOMAIN m.tables[m.refs[i].t1].cols)
                                               /\ \A j2 \in DOMAIN m.refs[i].c2 : m.refs[i].c2[j2] \in DOMAIN m.tables[m.refs[i].t2].cols
                  /\ \A g \in DOMAIN m.groups : \A j3 \in DOMAIN m.groups[g].items : m.groups[g].items[j3] \in DOMAIN m.tables
                  /\ \A t \in DOMAIN m.tables : \A j4 \in DOMAIN m.tables[t].cols :
                        m.tables[t].cols[j4].type.k = "enum" => m.tables[t].cols[j4].type.e \in DOMAIN m.enums
Near(a, b) == a = b \/ a = b + 1 \/ b = a + 1
EditsLocalOn(h, m0) == \A i \in DOMAIN h : /\ h[i].after.kind = "db" /\ LinksInside(h[i].after)
                                             /\ LET before == IF i = 1 THEN m0 ELSE h[i - 1].after IN
                                                Near(Len(h[i].after.tables), Len(before.tables)) /\ Near(Len(h[i].after.refs), Len(before.refs))
EditsLocal == WellFormed(TheDoc) => EditsLocalOn(TLCEval(HistoryOf(seed)), Model0)
EmitEdits == WellFormed(TheDoc) => PrintT(<<"DOC", seed, ToJson([doc |-> TheDoc, model |-> Model0, history |-> History])>>)
=============================================================================
