---------------------------- MODULE TraceInvalid ----------------------------
(* Conformance for C17: [tid, hist, steps] where steps[i] is the outcome class of every query
   after the first i-1 edits (steps[1] = the consistent initial state).  Every observed outcome
   must be the one Invalid!Out names, wherever the property speaks. *)
EXTENDS Invalid, Json, IOUtils, SequencesExt

Traces == ndJsonDeserialize(IOEnv.TRACE_FILE)

RECURSIVE StateAfter(_, _)
StateAfter(h, n) == IF n = 0 THEN Clean ELSE Apply(StateAfter(h, n - 1), h[n])

Bad(e) == {<<i, q>> \in (DOMAIN e.steps) \X Queries :
             Out(StateAfter(e.hist, i - 1), q, e.fl) # "unspecified" /\ e.steps[i][q] # Out(StateAfter(e.hist, i - 1), q, e.fl)}

Verdict(e) ==
  IF e.fl \notin Flavours THEN "harness: not a flavour of the universe"
  ELSE IF \E i \in DOMAIN e.hist : ~Enabled(StateAfter(e.hist, i - 1), e.hist[i]) THEN "harness: history not enabled"
  ELSE IF Bad(e) = {} THEN ""
  ELSE LET b == CHOOSE x \in Bad(e) : \A y \in Bad(e) : x[1] <= y[1] IN
       "after " \o ToString(b[1] - 1) \o " edits, " \o b[2] \o " gives " \o e.steps[b[1]][b[2]]
       \o " instead of " \o Out(StateAfter(e.hist, b[1] - 1), b[2], e.fl)

\* the single defects this history reached (and that were therefore judged)
Singles(e) == {x \in AllDefects : \E i \in DOMAIN e.steps : DefectsF(StateAfter(e.hist, i - 1), e.fl) = {x}}

VARIABLE ti
TInit == ti = 1 /\ st = Clean /\ hist = <<>>
TNext == /\ ti <= Len(Traces)
         /\ PrintT(<<"VERDICT", Traces[ti].tid, Verdict(Traces[ti]), SetToSeq(Singles(Traces[ti]))>>)
         /\ ti' = ti + 1 /\ UNCHANGED <<st, hist>>
=============================================================================
