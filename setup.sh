#!/bin/sh
# Offline setup: syntax-check every specification module with SANY. Nothing is fetched or built.
cd "$(dirname "$0")" || exit 2
rc=0
tmp=$(mktemp -d)
for f in spec/*.tla; do
  here=$(pwd)
  out=$(cd "$tmp" && java -DTLA-Library="$here/spec" -cp /opt/veriftools/tla/tla2tools.jar:/opt/veriftools/tla/CommunityModules-deps.jar tla2sany.SANY "$here/$f" 2>&1)
  if echo "$out" | grep -q -E 'Parsing or semantic analysis failed|\*\*\* Errors|Fatal errors|Could not'; then echo "SANY failed: $f"; echo "$out" | tail -20; rc=2; fi
done
rm -rf "$tmp"
/venv/bin/python -c "import pyparsing, sys; sys.path.insert(0,'/repo'); import pydbml" || rc=2
[ $rc = 0 ] && echo "setup ok"
exit $rc
