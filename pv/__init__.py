"""pv -- conformance harness binding the TLA+ specification in /verif/spec to PyDBML in /repo."""
