"""Run-time recorder of container calls (no change to /repo): wraps the public methods of Database and Table, and for
every OUTERMOST call records the projected state before and after plus the outcome class.  Used

  * as a pytest plugin (`-p pv.container_trace`, output file in $PV_TRACE_OUT) while the repository's own test-suite
    runs, and
  * around the parser's phase-2 schedule while generated documents are parsed (pv/c09.py),

and validated by TLC against ContainerInv.tla (state invariants, RejectedIsNoop, OrderKept, ProjectReplaced)."""
from __future__ import annotations

import json
import os
from typing import Any, Dict, List, Optional

EVENTS: List[Dict[str, Any]] = []
_REG: Dict[int, int] = {}
_KEEP: List[Any] = []           # strong references: ids must not be reused while a session is recorded
_DEPTH = 0
_INSTALLED = False
_CURRENT = {'where': ''}
SKIPPED = {'n': 0}


def _oid(o) -> int:
    if o is None:
        return 0
    k = id(o)
    if k not in _REG:
        _REG[k] = len(_REG) + 1
        _KEEP.append(o)
    return _REG[k]


def _real(o) -> bool:
    from pydbml.classes import Table, Column, Index, Reference, Enum, TableGroup, Project
    from pydbml._classes.sticky_note import StickyNote
    return type(o) in (Table, Column, Index, Reference, Enum, TableGroup, Project, StickyNote)


def project(db, extra: List[Any]) -> Optional[Dict[str, Any]]:
    """None = this state cannot be described (mocks, objects under construction): the call is skipped, never judged"""
    try:
        return _project(db, extra)
    except Exception:
        return None


def _project(db, extra: List[Any]) -> Optional[Dict[str, Any]]:
    from pydbml.classes import Table, Column, Index
    tops: List[Any] = []
    if db is not None:
        for lst in (db.tables, db.refs, db.enums, db.table_groups, db.sticky_notes):
            tops += list(lst)
        if db.project is not None:
            tops.append(db.project)
    for o in extra:
        if o is not None and not isinstance(o, (Column, Index)) and all(o is not x for x in tops):
            tops.append(o)
    if not all(_real(o) for o in tops):
        return None
    tables = [o for o in tops if isinstance(o, Table)]
    for o in extra:
        if isinstance(o, (Column, Index)) and isinstance(getattr(o, 'table', None), Table) and all(o.table is not t for t in tables):
            tables.append(o.table)
    cols: List[Any] = []
    idxs: List[Any] = []
    for t in tables:
        cols += [c for c in t.columns if all(c is not x for x in cols)]
        idxs += [i for i in t.indexes if all(i is not x for x in idxs)]
    for o in extra:
        if isinstance(o, Column) and all(o is not x for x in cols):
            cols.append(o)
        if isinstance(o, Index) and all(o is not x for x in idxs):
            idxs.append(o)
    if not all(_real(o) for o in cols + idxs):
        return None
    for c in cols + idxs:
        t = getattr(c, 'table', None)
        if t is not None and not isinstance(t, Table):
            return None
        if isinstance(t, Table) and all(t is not x for x in tables):
            tables.append(t)
    try:
        return {
            'tables': [_oid(t) for t in db.tables] if db is not None else [],
            'refs': [_oid(r) for r in db.refs] if db is not None else [],
            'enums': [_oid(e) for e in db.enums] if db is not None else [],
            'groups': [_oid(g) for g in db.table_groups] if db is not None else [],
            'notes': [_oid(n) for n in db.sticky_notes] if db is not None else [],
            'project': _oid(db.project) if db is not None else 0,
            'tdict': sorted([str(k), _oid(v)] for k, v in db.table_dict.items()) if db is not None else [],
            'own': sorted([_oid(o), (db is not None and getattr(o, 'database', None) is db)] for o in tops),
            'attr': sorted(({'id': _oid(t), 'full': str(t.full_name), 'alias': str(t.alias or '')} for t in tables), key=lambda a: a['id']),
            'cols': sorted([_oid(t), [_oid(c) for c in t.columns]] for t in tables),
            'idxs': sorted([_oid(t), [_oid(i) for i in t.indexes]] for t in tables),
            'ctab': sorted([_oid(c), _oid(c.table)] for c in cols),
            'itab': sorted([_oid(i), _oid(i.table)] for i in idxs),
        }
    except Exception:
        return None


def _wrap(cls, name, is_table: bool):
    orig = getattr(cls, name)

    def wrapped(self, *a, **kw):
        global _DEPTH
        if _DEPTH > 0:
            return orig(self, *a, **kw)
        db = (self.database if is_table else self)
        extra = [x for x in a if not isinstance(x, (int, str))] + ([self] if is_table else [])
        if db is not None and type(db).__name__ != 'Database':
            return orig(self, *a, **kw)
        pre = project(db, extra)
        _DEPTH += 1
        outcome = 'ok'
        try:
            return orig(self, *a, **kw)
        except BaseException as ex:
            outcome = type(ex).__name__
            raise
        finally:
            _DEPTH -= 1
            post = project(db, extra) if pre is not None else None
            if pre is None or post is None:
                SKIPPED['n'] += 1
            else:
                EVENTS.append({'call': '%s.%s' % (cls.__name__, name), 'outcome': outcome, 'pre': pre, 'post': post,
                               'where': _CURRENT['where']})
    wrapped.__name__ = name
    wrapped.__doc__ = orig.__doc__
    setattr(cls, name, wrapped)


SOURCES: List[Dict[str, Any]] = []


def _wrap_parse():
    """record the source text and option of every parse the process performs (which succeeded)"""
    from pydbml.parser.parser import PyDBMLParser
    orig = PyDBMLParser.parse

    def parse(self):
        db = orig(self)
        try:
            if isinstance(self.source, str):
                SOURCES.append({'text': self.source, 'allow': bool(getattr(self, '_allow_properties', False)), 'where': _CURRENT['where']})
        except Exception:
            pass
        return db
    PyDBMLParser.parse = parse


def install():
    global _INSTALLED
    if _INSTALLED:
        return
    _wrap_parse()
    from pydbml.database import Database
    from pydbml.classes import Table
    for n in ('add', 'add_table', 'add_reference', 'add_enum', 'add_table_group', 'add_sticky_note', 'add_project', 'delete',
              'delete_table', 'delete_reference', 'delete_enum', 'delete_table_group', 'delete_project'):
        _wrap(Database, n, False)
    for n in ('add_column', 'delete_column', 'add_index', 'delete_index'):
        _wrap(Table, n, True)
    _INSTALLED = True


def reset():
    EVENTS.clear()
    _REG.clear()
    _KEEP.clear()
    SKIPPED['n'] = 0


# ---- pytest plugin hooks ----------------------------------------------------------------------------------------------
def pytest_configure(config):
    install()


def pytest_runtest_setup(item):
    _CURRENT['where'] = item.nodeid
    _REG.clear()                     # ids are per test
    _KEEP.clear()


def pytest_unconfigure(config):
    out = os.environ.get('PV_TRACE_OUT')
    if out:
        with open(out, 'w') as f:
            for i, e in enumerate(EVENTS):
                e['tid'] = i + 1
                f.write(json.dumps(e, separators=(',', ':')) + '\n')
        with open(out + '.skipped', 'w') as f:
            f.write(str(SKIPPED['n']))
        with open(out + '.sources', 'w') as f:
            json.dump(SOURCES, f)
