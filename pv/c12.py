"""C12 -- all documented ways of supplying the source give the same database.

Session.tla: ParseCall(route, bom, doc, opts) -- the outcome is a function of the document and
of the options the route accepts, never of the route or of a leading BOM; other source types are
TypeError.  The harness writes each TLC-generated document (ASCII and non-ASCII content, with and
without properties) as UTF-8 text / file, calls every route x {BOM, no BOM} x option setting and
projects the outcome; TLC compares with ParseCall and checks the renderer classes of the result."""
from __future__ import annotations

import io
import os
import tempfile
from pathlib import Path
from typing import Any, Dict, List

from . import core, docs, doccheck, tlc
from .surface import print_doc

_SHARED_INSTANCE = None
ROUTES = ['ctor_str', 'ctor_path', 'ctor_file', 'static_parse', 'instance_parse',
          'parse_file_str', 'parse_file_path', 'parse_file_file',
          # an open TEXT file is text whatever its encoding: a handle opened on a UTF-16 file
          'ctor_file_utf16', 'parse_file_file_utf16',
          # one PyDBML() instance used again and again (same and other texts, same and other options)
          'instance_reused']
BAD = ['bytes', 'int', 'list', 'StringIO', 'float', 'tuple', 'int0', 'bytes_empty', 'list_empty', 'tuple_empty', 'float0', 'false', 'dict_empty',
       'pathlike', 'bytearray', 'bytes_path', 'purepath']


def _call(route: str, text: str, bom: bool, opts: Dict[str, bool], tmpdir: str):
    from pydbml import PyDBML
    from pydbml.renderer.sql.default import DefaultSQLRenderer
    from pydbml.renderer.dbml.default import DefaultDBMLRenderer
    from pydbml.renderer.base import BaseRenderer

    class CustomSQL(BaseRenderer):
        model_renderers = {}

        @classmethod
        def render_db(cls, db):
            return 'custom sql'

    class CustomDBML(BaseRenderer):
        model_renderers = {}

        @classmethod
        def render_db(cls, db):
            return 'custom dbml'
    kw: Dict[str, Any] = {}
    if route not in ('parse_file_str', 'parse_file_path', 'parse_file_file', 'parse_file_file_utf16'):
        if opts['allow']:
            kw['allow_properties'] = True
        if opts['custom'] in ('sql', 'both'):
            kw['sql_renderer'] = CustomSQL
        if opts['custom'] in ('dbml', 'both'):
            kw['dbml_renderer'] = CustomDBML
    src = ('\ufeff' if bom else '') + text
    fn = os.path.join(tmpdir, 'doc.dbml')
    with open(fn, 'wb') as f:
        f.write(src.encode('utf8'))
    if route == 'ctor_str':
        db = PyDBML(src, **kw)
    elif route == 'ctor_path':
        db = PyDBML(Path(fn), **kw)
    elif route == 'ctor_file':
        with open(fn, encoding='utf8') as f:
            db = PyDBML(f, **kw)
    elif route in ('ctor_file_utf16', 'parse_file_file_utf16'):
        fn16 = os.path.join(tmpdir, 'doc16.dbml')
        with open(fn16, 'w', encoding='utf-16', newline='') as f:
            f.write(src)
        with open(fn16, encoding='utf-16', newline='') as f:
            db = PyDBML(f, **kw) if route == 'ctor_file_utf16' else PyDBML.parse_file(f)
    elif route == 'static_parse':
        db = PyDBML.parse(src, **kw)
    elif route == 'instance_parse':
        db = PyDBML().parse(src, **kw)
    elif route == 'instance_reused':
        global _SHARED_INSTANCE
        if _SHARED_INSTANCE is None:
            _SHARED_INSTANCE = PyDBML()
        db = _SHARED_INSTANCE.parse(src, **kw)
    elif route == 'parse_file_str':
        db = PyDBML.parse_file(fn)
    elif route == 'parse_file_path':
        db = PyDBML.parse_file(Path(fn))
    elif route == 'parse_file_file':
        with open(fn, encoding='utf8') as f:
            db = PyDBML.parse_file(f)
    elif route == 'bytes':
        db = PyDBML(src.encode('utf8'), **kw)
    elif route == 'int':
        db = PyDBML(5, **kw)
    elif route == 'float':
        db = PyDBML(1.5, **kw)
    elif route == 'list':
        db = PyDBML([src], **kw)
    elif route == 'tuple':
        db = PyDBML((src,), **kw)
    elif route in ('int0', 'bytes_empty', 'list_empty', 'tuple_empty', 'float0', 'false', 'dict_empty'):
        db = PyDBML({'int0': 0, 'bytes_empty': b'', 'list_empty': [], 'tuple_empty': (), 'float0': 0.0, 'false': False, 'dict_empty': {}}[route], **kw)
    elif route == 'StringIO':
        db = PyDBML(io.StringIO(src), **kw)
    elif route == 'pathlike':
        class P:                                  # an os.PathLike that is no pathlib.Path, naming the real file
            def __fspath__(self):
                return fn
        db = PyDBML(P(), **kw)
    elif route == 'bytearray':
        db = PyDBML(bytearray(src.encode('utf8')), **kw)
    elif route == 'bytes_path':
        db = PyDBML(fn.encode('utf8'), **kw)          # the file's name as bytes
    elif route == 'purepath':
        from pathlib import PurePosixPath
        db = PyDBML(PurePosixPath(fn), **kw)
    else:
        raise RuntimeError(route)
    s_ = 'custom' if db.sql_renderer is CustomSQL else ('default' if db.sql_renderer is DefaultSQLRenderer else 'other')
    d_ = 'custom' if db.dbml_renderer is CustomDBML else ('default' if db.dbml_renderer is DefaultDBMLRenderer else 'other')
    rend = {('default', 'default'): 'none', ('custom', 'default'): 'sql', ('default', 'custom'): 'dbml',
            ('custom', 'custom'): 'both'}.get((s_, d_), 'other:%s/%s' % (s_, d_))
    return db, rend


def _exec_chunk(items):
    from . import project as pj
    out = []
    with tempfile.TemporaryDirectory(prefix='pv_c12_') as tmpdir:
        for it in items:
            text = print_doc(it['doc'], it['fseed'], it['pinned'])
            rend = 'none'
            try:
                db, rend = _call(it['route'], text, it['bom'], it['opts'], tmpdir)
                result = pj.project_db(db)
            except RuntimeError:
                raise
            except Exception as ex:
                result = {'kind': 'error', 'class': pj.classify(ex)}
            out.append({'tid': it['tid'], 'doc': it['doc'], 'allow': it['opts']['allow'], 'want': 'route', 'route': it['route'],
                        'bom': it['bom'], 'opts': it['opts'], 'result': result, 'links': pj.EMPTY_LINKS,
                        'obs': {'renderers': rend}, '_text': text})
    return out


def main(argv: List[str]) -> int:
    rep = core.Report('C12', 'Session!ParseCall(route, bom, doc, opts): every entry point x BOM x options on TLC-generated documents, '
                             'outcome projected and compared by TLC')
    rep.rule = ('case = (document seed, route, BOM, options); all 8 routes + 6 refused source types x {BOM, no BOM} x '
                '{allow_properties} x {custom renderer classes}; every case is non-trivial')
    rep.assumptions = ['files are written as UTF-8; the file-object routes open them with encoding="utf8"']
    n = doccheck.budget(16, 200)
    lo = core.seed() * 100000 + 40001
    items: Dict[int, Dict[str, Any]] = {}
    tid = 0
    for with_props in (False, True):
        ds = docs.gen_docs(lo, lo + n - 1, with_props, rep)
        ds = ds + [(-1, None)]            # and the EMPTY document (the empty string is a source like any other)
        for seed, doc in ds:
            if doc is None:
                for route in ROUTES:
                    for bom in (False, True):
                        for allow in (False, True):
                            tid += 1
                            items[tid] = {'tid': tid, 'doc': [], 'route': route, 'bom': bom, 'opts': {'allow': allow, 'custom': ('none', 'both', 'sql', 'dbml')[(2 * allow + bom + len(route)) % 4]},
                                          'fseed': None, 'pinned': {}, 'seed': seed, 'want': 'route', 'allow': allow, 'variant': 'empty'}
                continue
            # content with the Unicode line separators that str.splitlines() honours: a route that
            # re-splits its input would change it
            # ... and with U+FEFF (the byte order mark as a character: zero width no-break space) INSIDE the text, once and
            # twice: only a LEADING mark is not content
            doc = doc + [{'d': 'sticky', 'name': 'zz_sep', 'text': 'sep~u2028~arator ~u0085~ nel~u2029~ par'},
                         {'d': 'sticky', 'name': 'zz_zwnbsp', 'text': 'zero~ufeff~width and~ufeff~ again'}]
            for route in ROUTES + BAD:
                for bom in (False, True):
                    for allow in (False, True):
                        for custom in ('none', 'sql', 'dbml', 'both'):
                            if route in BAD and (custom != 'none' or bom):
                                continue
                            tid += 1
                            items[tid] = {'tid': tid, 'doc': doc, 'route': route, 'bom': bom, 'opts': {'allow': allow, 'custom': custom},
                                          'fseed': seed, 'pinned': {}, 'seed': seed, 'want': 'route', 'allow': allow, 'variant': with_props}
    chunks = core.chunked(list(items.values()), core.NCPU * 2)
    recs: List[Dict[str, Any]] = []
    for part in core.pmap(_exec_chunk, chunks):
        recs += part
    texts = {r['tid']: r.pop('_text') for r in recs}
    verdicts, st = core.validate('TraceDoc', 'TraceDoc.cfg', recs)
    rep.add_val_stats('TraceDoc C12', st)
    for r in recs:
        it = items[r['tid']]
        v = verdicts[r['tid']]
        rep.evaluations += 1
        if v == '':
            rep.traces_ok += 1
            rep.mark_nontrivial([it['seed'], it['route'], it['bom'], it['opts'], it['variant']])
        else:
            rep.violation({k: it[k] for k in it if k != 'tid'}, {'failing_clause': v, 'text': texts[r['tid']], 'observed': r['result'],
                                                                 'renderers': r['obs']})
    seen = {}
    for r in recs:
        it = items[r['tid']]
        k = '%s bom=%s allow=%s custom=%s' % (it['route'], it['bom'], it['opts']['allow'], it['opts']['custom'])
        seen[k] = seen.get(k, 0) + 1
    rep.notes['cases_by_route_and_options'] = dict(sorted(seen.items()))
    never = [rt for rt in ROUTES + BAD if not any(k.startswith(rt + ' ') for k in seen)]
    if never or len([k for k in seen if k.split()[0] in ROUTES]) < len(ROUTES) * 8:
        raise core.Machinery('C12: routes / option combinations never exercised: %s (%d combinations)' % (never, len(seen)))
    rep.notes['routes'] = ROUTES
    rep.notes['refused_sources'] = BAD
    r0 = recs[0]
    rep.samples.append({'route': r0['route'], 'bom': r0['bom'], 'opts': r0['opts'], 'text': texts[r0['tid']][:800]})
    return rep.finish()


def replay(path: str) -> int:
    import json
    core.setup_env()
    v = json.load(open(path))
    it = dict(v['stimulus'])
    it['tid'] = 1
    recs = _exec_chunk([it])
    for r in recs:
        r.pop('_text')
    verdicts, _ = core.validate('TraceDoc', 'TraceDoc.cfg', recs)
    print('verdict: %r' % verdicts[1])
    if verdicts[1]:
        print('VIOLATION property=C12 replay=%s' % path)
        return 1
    return 0


if __name__ == '__main__':
    import sys
    try:
        if '--replay' in sys.argv:
            sys.exit(replay(sys.argv[sys.argv.index('--replay') + 1]))
        sys.exit(main(sys.argv[1:]))
    except (core.Machinery, tlc.TlcFailure) as ex:
        print('MACHINERY-FAILURE C12: %s' % ex, file=sys.stderr)
        sys.exit(2)
