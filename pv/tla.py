"""Reader/printer for TLA+ values as TLC prints them (dumps, -simulate files, PrintT)."""
from __future__ import annotations
import re

_TOK = re.compile(r'''\s*(?:
    (?P<str>"(?:[^"\\]|\\.)*") |
    (?P<int>-?\d+) |
    (?P<op><<|>>|\|->|:>|@@|[\[\]{}(),]) |
    (?P<id>[A-Za-z_][A-Za-z0-9_!]*)
)''', re.X)


class TlaParseError(Exception):
    pass


def _unescape(s: str) -> str:
    out = []
    i = 0
    while i < len(s):
        ch = s[i]
        if ch == '\\' and i + 1 < len(s):
            nx = s[i + 1]
            out.append({'n': '\n', 't': '\t', 'r': '\r', 'f': '\f', '"': '"', '\\': '\\'}.get(nx, nx))
            i += 2
        else:
            out.append(ch)
            i += 1
    return ''.join(out)


class _P:
    def __init__(self, text: str, pos: int = 0):
        self.t = text
        self.p = pos
        self.peeked = None

    def next(self):
        if self.peeked is not None:
            tok = self.peeked
            self.peeked = None
            return tok
        m = _TOK.match(self.t, self.p)
        if not m:
            if self.t[self.p:].strip() == '':
                return ('eof', None)
            raise TlaParseError('bad token at %r' % self.t[self.p:self.p + 40])
        self.p = m.end()
        kind = m.lastgroup
        return (kind, m.group(kind))

    def peek(self):
        if self.peeked is None:
            self.peeked = self.next()
        return self.peeked

    def expect(self, val):
        k, v = self.next()
        if v != val:
            raise TlaParseError('expected %r got %r near %r' % (val, v, self.t[max(0, self.p - 30):self.p + 30]))

    def value(self):
        k, v = self.next()
        if k == 'str':
            return _unescape(v[1:-1])
        if k == 'int':
            return int(v)
        if k == 'id':
            if v == 'TRUE':
                return True
            if v == 'FALSE':
                return False
            return ModelValue(v)
        if v == '<<':
            items = []
            if self.peek()[1] == '>>':
                self.next()
                return items
            while True:
                items.append(self.value())
                k2, v2 = self.next()
                if v2 == '>>':
                    return items
                if v2 != ',':
                    raise TlaParseError('tuple: got %r' % v2)
        if v == '{':
            items = []
            if self.peek()[1] == '}':
                self.next()
                return TlaSet(items)
            while True:
                items.append(self.value())
                k2, v2 = self.next()
                if v2 == '}':
                    return TlaSet(items)
                if v2 != ',':
                    raise TlaParseError('set: got %r' % v2)
        if v == '[':
            rec = {}
            if self.peek()[1] == ']':
                self.next()
                return rec
            while True:
                k2, name = self.next()
                self.expect('|->')
                rec[name] = self.value()
                k3, v3 = self.next()
                if v3 == ']':
                    return rec
                if v3 != ',':
                    raise TlaParseError('record: got %r' % v3)
        if v == '(':
            fn = {}
            while True:
                key = self.value()
                self.expect(':>')
                fn[_hashable(key)] = self.value()
                k3, v3 = self.next()
                if v3 == ')':
                    return fn
                if v3 != '@@':
                    raise TlaParseError('function: got %r' % v3)
        raise TlaParseError('unexpected %r' % (v,))


class ModelValue(str):
    pass


class TlaSet(list):
    """A TLA+ set, kept as a list in TLC's print order."""


def _hashable(v):
    if isinstance(v, list):
        return tuple(_hashable(x) for x in v)
    if isinstance(v, dict):
        return tuple(sorted((k, _hashable(x)) for k, x in v.items()))
    return v


def parse_value(text: str):
    p = _P(text)
    v = p.value()
    if p.peek()[0] != 'eof':
        raise TlaParseError('trailing input %r' % text[p.p:p.p + 40])
    return v


_STATE_HDR = re.compile(r'^State (\d+):.*$', re.M)


def parse_dump(path: str):
    """Yield dicts var -> value for every state of a `tlc -dump` file."""
    with open(path, encoding='utf8') as f:
        text = f.read()
    heads = list(_STATE_HDR.finditer(text))
    for i, h in enumerate(heads):
        body = text[h.end():heads[i + 1].start() if i + 1 < len(heads) else len(text)]
        yield parse_state_body(body)


_CONJ = re.compile(r'^/\\ ([A-Za-z_][A-Za-z0-9_]*) = ', re.M)


def parse_state_body(body: str):
    st = {}
    ms = list(_CONJ.finditer(body))
    for j, m in enumerate(ms):
        vtext = body[m.end():ms[j + 1].start() if j + 1 < len(ms) else len(body)]
        st[m.group(1)] = parse_value(vtext)
    return st


def to_tla(v) -> str:
    """Print a Python value as a TLA+ expression (dict -> record, list -> tuple, TlaSet/set -> set)."""
    if isinstance(v, bool):
        return 'TRUE' if v else 'FALSE'
    if isinstance(v, int):
        return str(v)
    if isinstance(v, ModelValue):
        return str(v)
    if isinstance(v, str):
        return '"' + v.replace('\\', '\\\\').replace('"', '\\"').replace('\n', '\\n').replace('\t', '\\t').replace('\r', '\\r') + '"'
    if isinstance(v, (TlaSet, set, frozenset)):
        return '{' + ', '.join(to_tla(x) for x in v) + '}'
    if isinstance(v, (list, tuple)):
        return '<<' + ', '.join(to_tla(x) for x in v) + '>>'
    if isinstance(v, dict):
        if not v:
            return '<<>>'
        if all(isinstance(k, str) and re.fullmatch(r'[A-Za-z_][A-Za-z0-9_]*', k) for k in v):
            return '[' + ', '.join('%s |-> %s' % (k, to_tla(x)) for k, x in v.items()) + ']'
        return '(' + ' @@ '.join('%s :> %s' % (to_tla(k), to_tla(x)) for k, x in v.items()) + ')'
    raise TypeError('cannot print %r as TLA+' % (v,))
