"""C10 -- renderings always reflect the current state of the model after edits.

Edits.tla gives every in-place edit the property lists a meaning as a transition of the model
(links are positions, so a rename is visible wherever the element is mentioned).  TLC chooses
edit histories (ChooseEdit, seeded) over generated databases; the harness applies each edit to
the real objects, projects the database after every step (TLC checks it equals ApplyEdit), and
finally compares `.dbml` and `.sql` of the edited database and of each of its elements with those
of a database freshly built from the final model."""
from __future__ import annotations

import json
import sys
from typing import Any, Dict, List

from . import core, tlc, docs, doccheck
from .surface import print_doc, dec

CFG = '''CONSTANTS
  SeedLo = %d
  SeedHi = %d
  WithProps = FALSE
  WithComments = %s
  MaxEdits = %d
INIT Init
NEXT Next
INVARIANT EditsLocal
INVARIANT StoredIsParsed
INVARIANT EmitEdits
CHECK_DEADLOCK FALSE
'''


def gen(lo, hi, max_edits, with_comments, rep):
    res = tlc.require_ok(tlc.run_sharded('MC_Edits', lambda a, b: CFG % (a, b, 'TRUE' if with_comments else 'FALSE', max_edits),
                                         lo, hi, timeout=3000), 'MC_Edits')
    if res.violated:
        raise core.Machinery('design-level property %s violated in MC_Edits\n%s' % (res.violated, res.out[-2000:]))
    rep.add_tlc('MC_Edits seeds %d..%d' % (lo, hi), res)
    out = [(p[1], json.loads(p[2])) for p in res.prints if p and p[0] == 'DOC']
    if not out:
        raise core.Machinery('MC_Edits produced nothing')
    return sorted(out, key=lambda x: x[0])


def apply_edit(db, e):
    from pydbml.classes import Column, Index, EnumItem, Note
    from . import builder
    op = e['op']
    if op == 'skip':
        return
    if op.startswith('table_'):
        t = db.tables[e['t'] - 1]
        if op == 'table_name':
            t.name = dec(e['v'])
        elif op == 'table_schema':
            t.schema = dec(e['v'])
        elif op == 'table_alias':
            # "no alias" is written None or '' (the constructor treats both alike): alternately
            t.alias = dec(e['v']) or (None if len(db.tables) % 2 else '')
        elif op == 'table_note':
            # alternately a new Note object and the text of the note the element already has, edited in place
            if len(db.refs) % 2:
                t.note = Note(dec(e['v']))
            else:
                t.note.text = dec(e['v'])
    elif op.startswith('col_') or op == 'default_retyped':
        c = db.tables[e['t'] - 1].columns[e['c'] - 1]
        if op == 'col_name':
            c.name = dec(e['v'])
        elif op == 'col_type':
            c.type = db.enums[e['ty']['e'] - 1] if e['ty']['k'] == 'enum' else dec(e['ty']['v'])
        elif op == 'col_flag':
            attr = {'pk': 'pk', 'unique': 'unique', 'notnull': 'not_null', 'autoinc': 'autoinc'}[e['v']]
            setattr(c, attr, not getattr(c, attr))
        elif op == 'col_default':
            c.default = builder._default(e['df'])
        elif op == 'default_retyped':
            c.default = builder._default(e['first'])
            c.default = builder._default(e['df'])
        elif op == 'col_note':
            if len(db.refs) % 2:
                c.note = Note(dec(e['v']))
            else:
                c.note.text = dec(e['v'])
    elif op == 'enum_name':
        db.enums[e['e'] - 1].name = dec(e['v'])
    elif op.startswith('ref_'):
        r = db.refs[e['r'] - 1]
        if op == 'ref_type':
            r.type = e['v']
        elif op == 'ref_inline':
            r.inline = e['b']
        elif op == 'ref_name':
            r.name = dec(e['v']) or None
        elif op == 'ref_actions':
            r.on_update = e['u'] or None
            r.on_delete = e['d'] or None
    elif op == 'add_column':
        col = e['col']
        db.tables[e['t'] - 1].add_column(Column(dec(col['name']), dec(col['type']['v']), pk=col['pk'], unique=col['unique']))
    elif op == 'add_index':
        t = db.tables[e['t'] - 1]
        x = e['idx']
        t.add_index(Index(subjects=[t.columns[x['subj'][0]['i'] - 1]], name=dec(x['name']) or None, unique=x['unique'],
                          type=x['type'] or None))
    elif op == 'dup_index':
        t = db.tables[e['t'] - 1]
        x = t.indexes[e['x'] - 1]
        t.add_index(Index(subjects=list(x.subjects), name=x.name, unique=x.unique, type=x.type, pk=x.pk,
                          note=x.note.text if x.note else None, comment=x.comment))
    elif op == 'remove_index':
        db.tables[e['t'] - 1].delete_index(e['x'] - 1)
    elif op == 'add_enum_item':
        db.enums[e['e'] - 1].add_item(EnumItem(dec(e['item']['name'])))
    elif op == 'rename_item_add_old':
        en = db.enums[e['e'] - 1]
        en.items[e['k'] - 1].name = dec(e['v'])
        en.add_item(EnumItem(dec(e['old'])))
    # additions and removals of top-level elements, through the public container methods
    elif op == 'add_table':
        from pydbml.classes import Table
        t = e['table']
        tab = Table(dec(t['name']), schema=dec(t['schema']), note=dec(t['note']) or None)
        for col in t['cols']:
            tab.add_column(Column(dec(col['name']), dec(col['type']['v']), pk=col['pk']))
        db.add(tab)
    elif op == 'delete_table':
        db.delete(db.tables[e['t'] - 1])
    elif op == 'add_ref':
        from pydbml.classes import Reference
        r = e['ref']
        db.add(Reference(r['type'], [db.tables[r['t1'] - 1].columns[i - 1] for i in r['c1']],
                         [db.tables[r['t2'] - 1].columns[i - 1] for i in r['c2']], name=dec(r['name']) or None,
                         on_update=r['onupdate'] or None, on_delete=r['ondelete'] or None, inline=r['inline']))
    elif op == 'delete_ref':
        db.delete(db.refs[e['r'] - 1])
    elif op == 'add_enum':
        from pydbml.classes import Enum
        x = e['enum']
        db.add(Enum(dec(x['name']), [EnumItem(dec(i['name'])) for i in x['items']], schema=dec(x['schema'])))
    elif op == 'delete_enum':
        db.delete(db.enums[e['e'] - 1])
    elif op == 'add_group':
        from pydbml.classes import TableGroup
        g = e['group']
        db.add(TableGroup(dec(g['name']), [db.tables[i - 1] for i in g['items']], note=Note(dec(g['note'])) if g['note'] else None))
    elif op == 'delete_group':
        db.delete(db.table_groups[e['g'] - 1])
    elif op == 'add_sticky':
        from pydbml._classes.sticky_note import StickyNote
        db.add(StickyNote(dec(e['note']['name']), dec(e['note']['text'])))
    elif op == 'set_project':
        from pydbml.classes import Project
        p = e['project']
        db.add(Project(dec(p['name']), note=dec(p['note']) or None))
    elif op == 'delete_project':
        db.delete_project()
    else:
        raise RuntimeError('harness: unknown edit %r' % op)


def _text(obj, kind):
    try:
        return getattr(obj, kind)
    except Exception as ex:
        return 'EXC:' + type(ex).__name__


def elements(db):
    out = [('db', db)]
    for i, t in enumerate(db.tables):
        out.append(('tables[%d]' % (i + 1), t))
        for j, c in enumerate(t.columns):
            out.append(('tables[%d].columns[%d]' % (i + 1, j + 1), c))
        for j, x in enumerate(t.indexes):
            out.append(('tables[%d].indexes[%d]' % (i + 1, j + 1), x))
    for name, lst in (('enums', db.enums), ('refs', db.refs), ('table_groups', db.table_groups), ('sticky_notes', db.sticky_notes)):
        for i, o in enumerate(lst):
            out.append(('%s[%d]' % (name, i + 1), o))
    if db.project:
        out.append(('project', db.project))
    return out


def _exec_chunk(items):
    from pydbml import PyDBML
    from . import project as pj, builder
    out = []
    for it in items:
        rec = {'tid': it['tid'], 'model': it['model'], 'edits': [h['edit'] for h in it['history']], 'steps': [], 'diffs': []}
        try:
            if it['route'] == 'parsed':
                db = PyDBML(print_doc(it['doc'], None, {}))
            else:
                db = builder.build(it['model'])
            if it.get('prerender'):
                _ = (_text(db, 'sql'), _text(db, 'dbml'))        # caches, if any, are filled before the edits
                for _n, o in elements(db)[1:]:
                    _text(o, 'sql'), _text(o, 'dbml')
            final = it['model']
            for h in it['history']:
                apply_edit(db, h['edit'])
                if it.get('prerender'):
                    _text(db, 'sql'), _text(db, 'dbml')
                rec['steps'].append(pj.project_db(db))
                final = h['after']
            fresh = builder.build(final)
            ea, eb = elements(db), elements(fresh)
            if [n for n, _ in ea] != [n for n, _ in eb]:
                rec['diffs'].append('element lists differ')
            else:
                for (n, a), (_, b) in zip(ea, eb):
                    for kind in ('dbml', 'sql'):
                        if _text(a, kind) != _text(b, kind):
                            rec['diffs'].append('%s.%s' % (n, kind))
                            if n == 'db':
                                rec['_edited_' + kind] = _text(a, kind)
                                rec['_fresh_' + kind] = _text(b, kind)
        except RuntimeError:
            raise
        except Exception as ex:
            rec['diffs'].append('harness exception %s: %s' % (type(ex).__name__, str(ex)[:200]))
        out.append(rec)
    return out


def run_items(items, rep, label):
    recs: List[Dict[str, Any]] = []
    for part in core.pmap(_exec_chunk, core.chunked(items, core.NCPU * 4)):
        recs += part
    extra = {r['tid']: {k: r.pop(k) for k in list(r) if k.startswith('_')} for r in recs}
    verdicts, st = core.validate('TraceEdits', 'TraceEdits.cfg', recs)
    rep.add_val_stats('TraceEdits ' + label, st)
    return {r['tid']: (verdicts[r['tid']], r, extra[r['tid']]) for r in recs}


def main(argv: List[str]) -> int:
    rep = core.Report('C10', 'Edits.tla: edit histories chosen by TLC (ChooseEdit) over generated databases, applied to the real objects; '
                             'projection after every edit validated against ApplyEdit, final renderings compared with a freshly built database')
    rep.rule = ('case = (model seed, route, pre-rendered or not); 31 edit kinds (attribute edits, member additions/removals, additions/removals of top-level elements); history length 1..MaxEdits; non-trivial = the history '
                'has an edit that is not a skip')
    rep.assumptions = ['the fresh database is built by pv/builder.py from the final model computed by the specification',
                       'the inline flag a reference remembers while it is many-to-many is modelled (Edits!Stored / Eff): it is observable as soon as the kind is edited']
    n = doccheck.budget(500, 6000)
    max_edits = doccheck.budget(5, 10)
    lo = core.seed() * 100000 + 11001
    hs = gen(lo, lo + n - 1, max_edits, True, rep)
    items = {}
    tid = 0
    for seed, d in hs:
        for route in ('parsed', 'built'):
            for pre in (False, True):
                tid += 1
                items[tid] = {'tid': tid, 'route': route, 'prerender': pre, 'doc': d['doc'], 'model': d['model'], 'history': d['history'], 'seed': seed}
    res = run_items(list(items.values()), rep, 'C10')
    for tid, (v, r, extra) in res.items():
        it = items[tid]
        rep.evaluations += 1
        if v == '':
            rep.traces_ok += 1
            if any(h['edit']['op'] != 'skip' for h in it['history']):
                rep.mark_nontrivial([it['seed'], it['route'], it['prerender']])
        else:
            rep.violation({k: it[k] for k in it if k != 'tid'}, {'failing_clause': v, 'diffs': r['diffs'][:10], **extra})
    rep.notes['histories'] = len(hs)
    # vacuity guard: every kind of edit was applied (not skipped) in some judged history; kind edits reached and left many-to-many
    ops = {}
    for _, d in hs:
        m = d['model']
        for h in d['history']:
            e = h['edit']
            k = e['op']
            if k == 'ref_type':
                was = m['refs'][e['r'] - 1]['type']
                k = 'ref_type:' + ('to_m2m' if e['v'] == '<>' and was != '<>' else 'from_m2m' if was == '<>' and e['v'] != '<>' else 'plain')
            if k == 'col_type':
                k = 'col_type:' + e['ty']['k']
            ops[k] = ops.get(k, 0) + 1
            m = h['after']
    rep.notes['edits_applied'] = dict(sorted(ops.items()))
    want = ['table_name', 'table_schema', 'table_alias', 'table_note', 'col_name', 'col_type:str', 'col_type:enum', 'col_flag', 'col_default', 'default_retyped',
            'col_note', 'enum_name', 'ref_type:plain', 'ref_type:to_m2m', 'ref_type:from_m2m', 'ref_inline', 'ref_name', 'ref_actions',
            'add_column', 'add_index', 'remove_index', 'dup_index', 'add_enum_item', 'rename_item_add_old', 'add_table', 'delete_table', 'add_ref', 'delete_ref',
            'add_enum', 'delete_enum', 'add_group', 'delete_group', 'add_sticky', 'set_project', 'delete_project']
    never = [k for k in want if not ops.get(k)]
    if never:
        raise core.Machinery('C10: edits never applied in any history: %s' % never)
    rep.samples.append({'seed': hs[0][0], 'edits': [h['edit'] for h in hs[0][1]['history']]})
    return rep.finish()


def replay(path: str) -> int:
    core.setup_env()
    v = json.load(open(path))
    it = dict(v['stimulus'])
    it['tid'] = 1
    rep = core.Report('C10', 'replay')
    res = run_items([it], rep, 'replay')
    print('verdict: %r' % res[1][0])
    if res[1][0]:
        print('VIOLATION property=C10 replay=%s' % path)
        return 1
    return 0


if __name__ == '__main__':
    try:
        if '--replay' in sys.argv:
            sys.exit(replay(sys.argv[sys.argv.index('--replay') + 1]))
        sys.exit(main(sys.argv[1:]))
    except (core.Machinery, tlc.TlcFailure) as ex:
        print('MACHINERY-FAILURE C10: %s' % ex, file=sys.stderr)
        sys.exit(2)
