"""selftest only: a 'check' whose own code fails (see pv/run.py): a machinery failure, never a verdict."""
if __name__ == '__main__':
    raise KeyError('harness bug')
