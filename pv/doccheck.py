"""Generic driver for checks whose stimulus is (document, surface form): C01, C05, ..."""
from __future__ import annotations

import json
import sys
from typing import Any, Callable, Dict, List, Optional

from . import core, docs, tlc

DEV_TO_FINDING = {}


def budget(quick, thorough):
    return quick if core.tier() == 'quick' else thorough


def judge(prop: str, rep: core.Report, res: Dict[int, Any], items: Dict[int, Dict[str, Any]],
          nontrivial: Callable[[Dict[str, Any]], bool]):
    from . import census as cs
    known = {k['id'] for k in core.known_findings(prop)}
    cen = getattr(rep, 'census', None) or cs.Census()
    rep.census = cen
    seen_docs = set()
    for tid, (v, r) in res.items():
        it = items[tid]
        rep.evaluations += 1
        if not v.startswith('skip:') and it['doc'] and id(it['doc']) not in seen_docs:
            seen_docs.add(id(it['doc']))
            cen.add(cs.doc_tags(it['doc']))
        if v.startswith('skip:'):
            rep.notes['skipped'] = rep.notes.get('skipped', 0) + 1
            continue
        key = [it.get('seed'), it.get('gen'), it['fseed'], sorted(it['pinned'].items()), it['allow'], it.get('variant')]
        if v == '':
            rep.traces_ok += 1
            if nontrivial(it):
                rep.mark_nontrivial(key)
            continue
        fid = DEV_TO_FINDING.get(v)
        if fid and fid in known:
            rep.known(fid)
            rep.traces_ok += 1
            continue
        stim = {k: it[k] for k in it if k != 'tid'}
        rep.violation(stim, {'failing_clause': v, 'text': r.get('text'), 'observed': r.get('result'),
                             'links': r.get('links') if it['want'] == 'links' else None})


def replay(prop: str, path: str) -> int:
    core.setup_env()
    v = json.load(open(path))
    it = dict(v['stimulus'])
    it['tid'] = 1
    rep = core.Report(prop, 'replay')
    res = docs.run_items([it], rep, 'replay')
    verdict, r = res[1]
    print('text:\n' + r.get('text', ''))
    print('verdict: %r' % verdict)
    if verdict and not verdict.startswith('skip:'):
        print('VIOLATION property=%s replay=%s' % (prop, path))
        return 1
    print('replay: accepted on the current tree')
    return 0


def main_wrapper(prop: str, fn: Callable[[List[str]], int]):
    try:
        argv = sys.argv[1:]
        if '--replay' in argv:
            sys.exit(replay(prop, argv[argv.index('--replay') + 1]))
        sys.exit(fn(argv))
    except (core.Machinery, tlc.TlcFailure) as ex:
        print('MACHINERY-FAILURE %s: %s' % (prop, ex), file=sys.stderr)
        sys.exit(2)
