"""C07 -- malformed text is never accepted: the whole input must be valid DBML.

Malformed.tla lists 16 fault kinds and says for which (fault, site) pairs the result is provably
not DBML.  The harness prints TLC-generated documents in the canonical form, labels every line
(kind, enclosing block, features), applies every fault at every line and parses; TLC judges the
pairs the table lists: the only allowed outcome is a syntax error (pyparsing exception); a returned
database is a leak."""
from __future__ import annotations

import json
import re
import sys
from typing import Any, Dict, List, Tuple

from . import core, tlc, docs, doccheck
from .surface import Form, Printer

CANON = {'quote': 'bare', 'kwcase': 'title', 'string': 'single', 'settings_order': 'canonical', 'settings_layout': 'oneline',
         'note_place': 'body_colon', 'note_pos': 'last', 'idx_pos': 'last', 'brace': 'same', 'blank': 1, 'indent': '  ', 'eol': '\n',
         'final_nl': True, 'ref_form': 'short', 'single_idx_parens': False, 'pk_word': 'pk', 'legacy_constraints': False,
         'null_word': False, 'note_pad': 'tight', 'space': ' ', 'comment_style': 'line', 'comment_place': 'above'}
FAULTS = ["illegal_char_line", "stray_identifier_line", "stray_comma_line", "delete_close_brace", "duplicate_close_brace",
          "delete_open_brace", "unterminated_string", "column_without_type", "unknown_setting", "unknown_index_type",
          "bad_ref_operator", "bad_action", "bad_colour", "text_after_close_brace", "delete_open_bracket", "delete_close_bracket",
          "duplicate_open_bracket", "duplicate_close_bracket",
          "empty_settings", "trailing_comma_in_settings", "missing_comma_in_settings", "missing_value", "ref_without_column", "keyword_typo", "junk_in_type_args", "exotic_space_line", "foreign_setting"]
_HEADS = [('Table ', 'table_head', 'table'), ('Enum ', 'enum_head', 'enum'), ('TableGroup ', 'group_head', 'group'),
          ('Project ', 'project_head', 'project'), ('Ref', 'ref_head', 'ref'), ('indexes', 'indexes_head', 'indexes'),
          ('Note ', 'sticky_head', 'note'), ('Note {', 'note_head', 'note')]
_ITEM = {'table': 'column', 'indexes': 'index', 'enum': 'enum_item', 'group': 'group_item', 'project': 'project_item', 'ref': 'ref_body',
         'note': 'note_text', 'top': 'ref_short'}


def mask(ln: str) -> str:
    """the line with the inside of every string literal, quoted identifier and backtick expression blanked out (same length):
    what is left are the tokens a fault may touch"""
    return re.sub(r"'(?:[^'\\]|\\.)*'|\"[^\"]*\"|`[^`]*`", lambda m: m.group(0)[0] + 'x' * (len(m.group(0)) - 2) + m.group(0)[-1] if len(m.group(0)) > 1 else m.group(0), ln)


def label(lines: List[str]) -> List[Dict[str, Any]]:
    """kind, enclosing block and features of every line of a canonically printed document"""
    out = []
    stack = ['top']
    in_string = False
    for ln in lines:
        s = ln.strip()
        ctx = stack[-1]
        feats: List[str] = []
        if in_string:
            kind = 'string'
            if s.count("'''") % 2 == 1:
                in_string = False
            out.append({'ctx': ctx, 'kind': kind, 'feats': feats})
            continue
        opens_string = s.count("'''") % 2 == 1
        if s == '':
            kind = 'blank'
        elif s == '}':
            kind = 'close'
            stack.pop()         # ctx stays the block being closed: text inserted before this line lands inside it
        elif s.endswith('{') and not opens_string:
            kind, push = None, None
            for pre, k, blk in _HEADS:
                if s.startswith(pre):
                    kind, push = k, blk
            if s == 'Note {':
                kind, push = 'note_head', 'note'
            if kind is None:
                raise core.Machinery('cannot label line %r' % ln)
            feats.append('open_brace')
            stack.append(push)
        elif ctx == 'table' and re.match(r'Note:', s):
            kind = 'note_line'
        elif ctx in ('group', 'project') and re.match(r'Note:', s):
            kind = 'note_line'
        elif ctx == 'table' and re.match(r'("[^"]*"|\w+): ', s):
            kind = 'prop_line'
        else:
            kind = _ITEM[ctx]
        if opens_string:
            in_string = True
            kind = 'string' if kind not in ('column', 'index', 'enum_item', 'note_line', 'project_item', 'table_head', 'group_head', 'prop_line', 'note_text') else kind
            feats = [f for f in feats if f != 'open_brace']
            out.append({'ctx': ctx, 'kind': 'string', 'feats': []})      # a line that opens a multi-line literal is left alone
            continue
        if kind not in ('blank', 'close', 'string'):
            code = re.sub(r"'(?:[^'\\]|\\.)*'", "''", s)
            bare = mask(s)
            if re.search(r'\[.*\]', bare):
                feats.append('settings')
            if bare.count('[') + bare.count(']') > 0:
                feats.append('brackets_outside_literals')
            if kind == 'column' and re.match(r'\s*(?:"x*"|\w+)\s+[^\[]*\([^()\[\]]*\)', bare):
                feats.append('type_args')
            m = re.search(r'\[([^\[\]]*)\]\s*(//.*)?$', bare)
            if m and 'settings' in feats:
                if ',' in m.group(1):
                    feats.append('two_settings')
                if re.search(r'\b(note|default|name|type|update|delete|headercolor|color|ref):', m.group(1), re.I):
                    feats.append('keyed_setting')
            if re.search(r'\btype: \w+', code):
                feats.append('index_type')
            if re.search(r'\b(update|delete): ', code):
                feats.append('action')
            if re.search(r'(headercolor|color): #', code):
                feats.append('colour')
            if len(re.findall(r"'(?:[^'\\]|\\.)*'", s)) == 1 and s.count("'") == 2 and '"' not in s and '`' not in s:
                feats.append('one_single_quoted_string')
        out.append({'ctx': ctx, 'kind': kind, 'feats': feats})
    return out


FOREIGN_SETTINGS = {
    'table_head': ['color: #aabbcc', 'pk', 'unique', 'type: btree', 'delete: cascade', 'increment'],
    'group_head': ['headercolor: #aabbcc', 'pk', 'type: hash', 'update: cascade'],
    'column': ['headercolor: #aabbcc', 'color: #abc', 'type: btree', 'delete: cascade', 'update: no action'],
    'index': ['headercolor: #abc', 'not null', 'increment', 'default: 1', 'delete: cascade', 'null'],
    'ref_short': ['pk', 'unique', 'headercolor: #abc', 'type: hash', 'not null'],
    'ref_body': ['pk', 'unique', 'headercolor: #abc', 'type: hash', 'increment'],
}


def apply_fault(lines: List[str], i: int, fault: str, variant: int, kind: str = '') -> List[str]:
    ln = lines[i]
    new = list(lines)
    if fault == 'illegal_char_line':
        new.insert(i, ['@', '%', ';', 'a @ b'][variant % 4])
    elif fault == 'exotic_space_line':
        new.insert(i, ['\x0c', '\x0b', '\u00a0', '\u2028', '\u3000', '\x85', '  \x0c  ', '\x1c'][variant % 8])
    elif fault == 'stray_identifier_line':
        new.insert(i, ['zzz', 'zzz_9', 'ZZZ'][variant % 3])
    elif fault == 'stray_comma_line':
        new.insert(i, ',')
    elif fault == 'delete_close_brace':
        del new[i]
    elif fault == 'duplicate_close_brace':
        new.insert(i + 1, '}')
    elif fault == 'text_after_close_brace':
        new[i] = ln + [' zzz', ' ]', ' {'][variant % 3]
    elif fault == 'delete_open_brace':
        new[i] = ln[:ln.rindex('{')].rstrip()
    elif fault == 'unterminated_string':
        new[i] = ln[:ln.rindex("'")] + ln[ln.rindex("'") + 1:]
    elif fault == 'column_without_type':
        m = re.match(r'(\s*(?:"[^"]*"|\w+))', ln)
        new[i] = m.group(1)
    elif fault == 'unknown_setting':
        k = mask(ln).index('[')
        new[i] = ln[:k] + ['[zzz, ', "[zzz: 'v', ", '[zzz: 1, '][variant % 3] + ln[k + 1:]
    elif fault == 'foreign_setting':
        # a setting that is well formed -- for ANOTHER kind of element
        opts = FOREIGN_SETTINGS[kind]
        k = mask(ln).index('[')
        new[i] = ln[:k] + '[' + opts[variant % len(opts)] + ', ' + ln[k + 1:]
    elif fault == 'unknown_index_type':
        # an unknown word, fragments and extensions of real types
        bad = ['zzz', 'tree', 'has', 'gi', 'b', 'spg', 'hashh', 'btre'][variant % 8]
        new[i] = re.sub(r'\btype: \w+', 'type: ' + bad, ln, count=1)
    elif fault == 'bad_ref_operator':
        new[i] = re.sub(r' (<>|>|<|-) ', [' => ', ' >> ', ' ~ '][variant % 3], ln, count=1)
    elif fault == 'bad_action':
        # an unknown word, real actions with their blank removed / replaced, a real action with a tail, half an action
        bad = ['zzz', 'setnull', 'noaction', 'setdefault', 'cascading', 'set', 'no_action', 'set-null', 'cascad', 'restric', 'action', 'null',
               'default'][variant % 13]
        new[i] = re.sub(r'\b(update|delete): [a-z]+( [a-z]+)?', r'\1: ' + bad, ln, count=1)
    elif fault == 'bad_colour':
        new[i] = re.sub(r'#[0-9a-fA-F]+', ['#ab', '#abcd', '#ggg', '#abcdefa', '#12345', '#'][variant % 6], ln, count=1)
    elif fault == 'delete_open_bracket':
        k = mask(ln).index('[')
        new[i] = ln[:k] + ln[k + 1:]
    elif fault == 'delete_close_bracket':
        k = mask(ln).rindex(']')
        new[i] = ln[:k] + ln[k + 1:]
    elif fault in ('empty_settings', 'trailing_comma_in_settings', 'missing_comma_in_settings', 'missing_value'):
        mk = mask(ln)
        m = re.search(r'\[([^\[\]]*)\]\s*(//.*)?$', mk)
        a, b = m.start(1), m.end(1)              # the inside of the LAST bracket pair of the line: the settings list
        if fault == 'empty_settings':
            new[i] = ln[:a] + ['', ' ', ' , '][variant % 3] + ln[b:]
        elif fault == 'trailing_comma_in_settings':
            new[i] = ln[:b] + [',', ' ,', ', ,'][variant % 3] + ln[b:]
        elif fault == 'missing_comma_in_settings':
            ks = [a + j for j, ch in enumerate(mk[a:b]) if ch == ',']
            k = ks[variant % len(ks)]
            new[i] = ln[:k] + ' ' + ln[k + 1:]
        else:
            km = list(re.finditer(r'\b(note|default|name|type|update|delete|headercolor|color|ref):', mk[a:b], re.I))
            k = km[variant % len(km)]
            # drop the value: everything up to the next comma of the list (or its end)
            rest = mk[a + k.end():b]
            end = a + k.end() + (rest.index(',') if ',' in rest else len(rest))
            new[i] = ln[:a + k.end()] + ' ' + ln[end:]
    elif fault == 'ref_without_column':
        # the last `.column` of one side goes: `a.b > c` / `a > c.d`
        mk = mask(ln)
        sides = list(re.finditer(r'((?:"x*"|\w+)(?:\.(?:"x*"|\w+))*)\.(?:"x*"|\w+|\([^()]*\))', mk))
        s = sides[variant % len(sides)]
        parts = s.group(1)
        if '.' in parts and variant % 2 == 0:      # schema.table.col -> keep schema.table?  no: that still names table.column; drop to one name
            parts = parts.split('.')[0] if not parts.startswith('"') else parts[:parts.index('"', 1) + 1]
            new[i] = ln[:s.start()] + ln[s.start():s.start() + len(parts)] + ln[s.end():]
        else:
            new[i] = ln[:s.start()] + ln[s.start():s.start() + len(s.group(1))].split('.')[0] + ln[s.end():] if '.' not in s.group(1) else ln[:s.start()] + ln[s.start():s.start() + len(parts)].split('.')[0] + ln[s.end():]
    elif fault == 'keyword_typo':
        m = re.match(r'(\s*)(Table|Enum|TableGroup|Project|Ref|Note|indexes)\b', ln, re.I)
        w = m.group(2)
        # last two letters swapped, first letter lost, first two swapped: the keyword is no longer a PREFIX of the word (the
        # grammar reads `Reff:` as `Ref f:` -- keyword and name may be glued -- so a typo that keeps the prefix proves nothing)
        typo = [w[:-2] + w[-1] + w[-2], w[1:], w[1] + w[0] + w[2:]][variant % 3]
        new[i] = m.group(1) + typo + ln[m.end():]
    elif fault == 'junk_in_type_args':
        mk = mask(ln)
        m = re.match(r'\s*(?:"x*"|\w+)\s+[^\[]*\(([^()\[\]]*)\)', mk)
        k = m.end(1)
        new[i] = ln[:k] + [' @@', ' ?!', '%%', ' =>', ' ]'][variant % 5] + ln[k:]
    elif fault == 'duplicate_open_bracket':
        # every opening bracket of the line in turn (settings list, array suffix of a type), glued or spaced
        ks = [m.start() for m in re.finditer(r'\[', mask(ln))]
        k = ks[(variant // 2) % len(ks)]
        new[i] = ln[:k] + ('[[' if variant % 2 == 0 else '[ [') + ln[k + 1:]
    elif fault == 'duplicate_close_bracket':
        ks = [m.start() for m in re.finditer(r'\]', mask(ln))]
        k = ks[(variant // 2) % len(ks)]
        new[i] = ln[:k] + (']]' if variant % 2 == 0 else '] ]') + ln[k + 1:]
    return new


PROBE = [{'d': 'table', 'schema': '', 'name': 'zz_probe', 'alias': '', 'color': '', 'note': '', 'props': [], 'comment': '',
          'cols': [{'name': 'id', 'type': {'schema': '', 'name': 'int', 'suffix': ''}, 'pk': False, 'unique': False, 'notnull': False,
                    'autoinc': False, 'default': {'k': 'none', 'v': ''}, 'note': '', 'props': [], 'comment': '', 'refs': []}], 'idxs': []}]
PROBE_TEXT = 'Table zz_probe {\n  id int\n}\n'


def _exec_chunk(items):
    from pydbml import PyDBML
    from . import project as pj
    out = []
    for it in items:
        try:
            PyDBML(it['text'], allow_properties=True) if it['allow'] else PyDBML(it['text'])
            oc = 'db'
        except Exception as ex:
            oc = pj.classify(ex)
        after, _, _ = pj.parse_and_project(PROBE_TEXT, links=False)     # the next parse in the same process
        out.append({'tid': it['tid'], 'fault': it['fault'], 'site': it['site'], 'allow': it['allow'], 'propsyntax': it['propsyntax'], 'outcome': oc, 'probe': PROBE if it['tid'] % 200 == 1 or True else [], 'after': after})
    return out


def main(argv: List[str]) -> int:
    rep = core.Report('C07', 'Malformed.tla: 25 fault kinds applied at every line of TLC-generated documents printed canonically; the outcome '
                             'of the parse call validated by TLC for every (fault, site) pair that ProvablyInvalid lists')
    rep.rule = ('case = (document seed, line, fault kind, variant); only pairs listed by Malformed!ProvablyInvalid are judged; every '
                'judged case is non-trivial (exactly one fault)')
    rep.assumptions = ['documents are printed in the canonical form (pv/c07.py CANON) so that lines can be labelled reliably',
                       'the fault table is conservative: pairs where a DBML reading may exist are not listed']
    n = doccheck.budget(40, 700)
    lo = core.seed() * 100000 + 13001
    ds = docs.gen_docs(lo, lo + n - 1, False, rep, with_comments=False)
    items: Dict[int, Dict[str, Any]] = {}
    tid = 0
    for seed, doc in ds:
        lines = Printer(Form(None, dict(CANON))).lines(doc)
        lines = [l.replace('\x01', '').replace('\x02', '').replace('\x03', '').replace('\x04', '') for l in '\n'.join(lines).split('\n')]
        labels = label(lines)
        for i, site in enumerate(labels + [{'ctx': 'top', 'kind': 'blank', 'feats': []}]):
            for fault in FAULTS:
                if i >= len(lines) and fault not in ('illegal_char_line', 'exotic_space_line', 'stray_identifier_line', 'stray_comma_line'):
                    continue
                for variant in range(13 if fault == 'bad_action' else 8 if fault == 'unknown_index_type' else 5 if fault == 'junk_in_type_args' else 3 if fault == 'foreign_setting' else 3 if fault in ('empty_settings', 'trailing_comma_in_settings', 'missing_comma_in_settings', 'missing_value', 'ref_without_column', 'keyword_typo') else 4 if fault in ('duplicate_open_bracket', 'duplicate_close_bracket') else 3 if fault in ('illegal_char_line', 'exotic_space_line', 'bad_colour', 'bad_ref_operator', 'text_after_close_brace', 'unknown_setting') else 1):
                    try:
                        new = apply_fault(lines + ([''] if i >= len(lines) else []), i, fault, variant + (seed if fault != 'unknown_setting' else 0), site['kind'])
                    except (ValueError, AttributeError, ZeroDivisionError, IndexError, KeyError):
                        continue            # the line has nothing this fault could be applied to
                    if new == lines:
                        continue
                    tid += 1
                    # both option values (the grammar in use differs); the documents carry no properties
                    items[tid] = {'tid': tid, 'seed': seed, 'line': i, 'fault': fault, 'variant': variant, 'site': site,
                                  # (every third one between two block comments: a comment ends at ITS closing mark)
                                  'text': ('/* head */\n' if tid % 3 == 0 else '') + '\n'.join(new) + '\n' + ('/* tail */\n' if tid % 3 == 0 else ''),
                                  'allow': tid % 2 == 0,
                                  'propsyntax': fault == 'unknown_setting' and "zzz: 'v'" in new[i]}
    recs: List[Dict[str, Any]] = []
    for part in core.pmap(_exec_chunk, core.chunked(list(items.values()), core.NCPU * 4)):
        recs += part
    verdicts, st = core.validate('TraceMalformed', 'TraceMalformed.cfg', recs)
    rep.add_val_stats('TraceMalformed', st)
    ood = 0
    per = {}
    for r in recs:
        v = verdicts[r['tid']]
        it = items[r['tid']]
        if v == 'out-of-domain':
            ood += 1
            continue
        rep.evaluations += 1
        per[it['fault']] = per.get(it['fault'], 0) + 1
        if v == '':
            rep.traces_ok += 1
            rep.mark_nontrivial([it['seed'], it['line'], it['fault'], it['variant']])
        else:
            rep.violation({k: it[k] for k in it if k != 'tid'}, {'failing_clause': v, 'outcome': r['outcome']})
    rep.notes['documents'] = len(ds)
    rep.notes['judged_per_fault_kind'] = per
    never = [f for f in FAULTS if not per.get(f)]
    if never:
        raise core.Machinery('C07: fault kinds never judged: %s' % never)
    rep.notes['pairs_not_listed_as_provably_invalid'] = ood
    k = next(t for t in items if items[t]['fault'] == 'delete_close_brace')
    rep.samples.append({'fault': items[k]['fault'], 'site': items[k]['site'], 'text': items[k]['text'][:800]})
    return rep.finish()


def replay(path: str) -> int:
    core.setup_env()
    v = json.load(open(path))
    it = dict(v['stimulus'])
    it['tid'] = 1
    it.setdefault('allow', False)
    it.setdefault('propsyntax', False)
    recs = _exec_chunk([it])
    verdicts, _ = core.validate('TraceMalformed', 'TraceMalformed.cfg', recs)
    print(it['text'])
    print('outcome: %s  verdict: %r' % (recs[0]['outcome'], verdicts[1]))
    if verdicts[1] not in ('', 'out-of-domain'):
        print('VIOLATION property=C07 replay=%s' % path)
        return 1
    return 0


if __name__ == '__main__':
    try:
        if '--replay' in sys.argv:
            sys.exit(replay(sys.argv[sys.argv.index('--replay') + 1]))
        sys.exit(main(sys.argv[1:]))
    except (core.Machinery, tlc.TlcFailure) as ex:
        print('MACHINERY-FAILURE C07: %s' % ex, file=sys.stderr)
        sys.exit(2)
