"""C03 -- SQL DDL states exactly the model: types, tables, columns, keys, indexes, notes.

SqlExec!ExpectedCatalog(model) vs. the statements read back from db.sql by an independent DDL
reader; every statement must be executable in order (CREATE INDEX / COMMENT ON name a table as
it was created), and the final catalog must equal the expected one (nothing else, everything
once).  Databases are obtained by parsing TLC-generated documents and by API construction."""
import sys
from . import sqlcheck


def nontrivial(it):
    for t in it['model']['tables']:
        if t['schema'] != 'public' or t['note'] or t['idxs']:
            return True
        for c in t['cols']:
            if c['pk'] or c['unique'] or c['notnull'] or c['autoinc'] or c['default']['k'] != 'none' or c['note']:
                return True
    return False


if __name__ == '__main__':
    sys.exit(sqlcheck.standard_main(
        'C03', ['c03'],
        'TLC-generated models rendered to SQL by /repo; an independent DDL reader returns the statements; TraceSql.tla executes them '
        'on the catalog machine of SqlExec.tla and compares with ExpectedCatalog(model)',
        'case = (model seed, route in {parsed, built, morphed = built from other content, rendered, edited in place}); non-trivial = >= 1 flag, default, index, note or non-public schema',
        nontrivial, 80001, 250, 5000))
