"""DDL reader: the SQL text PyDBML emits -> the statement records of SqlExec.tla.

Independent of PyDBML.  It recognises exactly the statement shapes the properties promise
(CREATE TYPE ... AS ENUM, CREATE TABLE, CREATE [UNIQUE] INDEX, ALTER TABLE ... ADD FOREIGN KEY,
COMMENT ON TABLE/COLUMN, `--` comment lines), tolerant of letter case and of runs of blanks,
and fails loudly (Unreadable) on anything else: text it cannot read is never guessed at.
Free text that the model supplies verbatim (type text, DEFAULT text, expressions, note bodies) is
returned as the raw source slice.
"""
from __future__ import annotations

import re
from typing import Any, Dict, List, Optional, Tuple


class Unreadable(Exception):
    pass


_IDENT = r'"[^"\n]*"'
_QNAME = r'%s(?:\s*\.\s*%s)?' % (_IDENT, _IDENT)


def _parts(q: str) -> List[str]:
    return re.findall(r'"([^"\n]*)"', q)


def _collist(s: str) -> List[str]:
    s = s.strip()
    if not re.fullmatch(r'%s(?:\s*,\s*%s)*' % (_IDENT, _IDENT), s):
        raise Unreadable('column list %r' % s)
    return _parts(s)


def _split_top(s: str, sep: str = ',') -> List[str]:
    """split at separators that are outside parentheses and double quotes"""
    out, depth, cur, inq = [], 0, [], False
    for ch in s:
        if inq:
            cur.append(ch)
            if ch == '"':
                inq = False
            continue
        if ch == '"':
            inq = True
            cur.append(ch)
        elif ch == '(':
            depth += 1
            cur.append(ch)
        elif ch == ')':
            depth -= 1
            cur.append(ch)
        elif ch == sep and depth == 0:
            out.append(''.join(cur))
            cur = []
        else:
            cur.append(ch)
    out.append(''.join(cur))
    return out


def _subjects(s: str) -> List[Dict[str, str]]:
    res = []
    for p in _split_top(s):
        p = p.strip()
        m = re.fullmatch(_IDENT, p)
        if m:
            res.append({'k': 'col', 'v': p[1:-1]})
        elif p.startswith('(') and p.endswith(')'):
            res.append({'k': 'expr', 'v': p[1:-1]})
        else:
            res.append({'k': 'raw', 'v': p})
    return res


_FK_TAIL = (r'FOREIGN\s+KEY\s*\((?P<cols>[^()]*)\)\s*REFERENCES\s+(?P<ref>%s)\s*\((?P<refcols>[^()]*)\)'
            r'(?:\s+ON\s+UPDATE\s+(?P<upd>[A-Z]+(?: [A-Z]+)?))?(?:\s+ON\s+DELETE\s+(?P<del>[A-Z]+(?: [A-Z]+)?))?' % _QNAME)
_RE_FK_CLAUSE = re.compile(r'^(?:CONSTRAINT\s+(?P<cname>%s)\s+)?%s$' % (_IDENT, _FK_TAIL), re.I)
_RE_ALTER = re.compile(r'^ALTER\s+TABLE\s+(?P<q>%s)\s+ADD\s+(?:CONSTRAINT\s+(?P<cname>%s)\s+)?%s\s*;$' % (_QNAME, _IDENT, _FK_TAIL), re.I)
_RE_PK = re.compile(r'^PRIMARY\s+KEY\s*\((?P<keys>.*)\)$', re.I | re.S)
_RE_COL = re.compile(r'^(?P<name>%s)\s+(?P<type>.*?)(?P<pk>\s+PRIMARY\s+KEY)?(?P<ai>\s+AUTOINCREMENT)?(?P<uq>\s+UNIQUE)?'
                     r'(?P<nn>\s+NOT\s+NULL)?(?:(?P<dk>\s+DEFAULT)(?: (?P<def>.*))?)?$' % _IDENT, re.S)
_RE_CREATE_TABLE = re.compile(r'^CREATE\s+TABLE\s+(?P<q>%s)\s*\($' % _QNAME, re.I)
_RE_CREATE_TYPE = re.compile(r'^CREATE\s+TYPE\s+(?P<q>%s)\s+AS\s+ENUM\s*\($' % _QNAME, re.I)
_RE_INDEX = re.compile(r'^CREATE\s+(?P<uq>UNIQUE\s+)?INDEX\s+(?:(?P<name>%s)\s+)?(?:ON\s+(?P<on>%s)\s+)?(?:USING\s+(?P<using>\w+)\s+)?'
                       r'\((?P<keys>.*)\)\s*;$' % (_IDENT, _QNAME), re.I | re.S)
_RE_COMMENT = re.compile(r"^COMMENT\s+ON\s+(?P<what>TABLE|COLUMN)\s+(?P<target>%s(?:\s*\.\s*%s)*)\s+IS\s+'" % (_IDENT, _IDENT), re.I)


def _flat(s: str) -> str:
    """runs of blanks outside double-quoted identifiers -> one blank"""
    parts = re.split(r'("[^"\n]*")', s)
    return ''.join(p if p.startswith('"') else re.sub(r'[ \t]+', ' ', p) for p in parts)


def _fk(m, comment) -> Dict[str, Any]:
    return {'cname': (m.group('cname') or '""')[1:-1], 'cols': _collist(m.group('cols')), 'ref': _parts(m.group('ref')),
            'refcols': _collist(m.group('refcols')), 'onupdate': (m.group('upd') or '').upper(),
            'ondelete': (m.group('del') or '').upper(), 'comment': comment}


def read(sql: str) -> List[Dict[str, Any]]:
    lines = sql.split('\n')
    out: List[Dict[str, Any]] = []
    i = 0
    pending: List[str] = []          # `--` comment lines waiting for their statement

    def take_comment() -> str:
        nonlocal pending
        c, pending = pending, []
        return '\n'.join(c)
    n = len(lines)
    while i < n:
        ln = lines[i]
        s = ln.strip()
        if not s:
            i += 1
            continue
        if s.startswith('--'):
            pending.append(s[2:].strip())
            i += 1
            continue
        m = _RE_CREATE_TYPE.match(s)
        if m:
            items, icomments = [], []
            i += 1
            ipend: List[str] = []
            while i < n and lines[i].strip() != ');':
                t = lines[i].strip()
                if t.startswith('--'):
                    ipend.append(t[2:].strip())
                elif t:
                    mm = re.fullmatch(r"'(.*)',?", t, re.S)
                    if not mm:
                        raise Unreadable('enum item %r' % t)
                    items.append(mm.group(1))
                    icomments.append('\n'.join(ipend))
                    ipend = []
                i += 1
            if i >= n:
                raise Unreadable('unterminated CREATE TYPE')
            out.append({'k': 'type', 'q': _parts(m.group('q')), 'items': items, 'icomments': icomments, 'comment': take_comment()})
            i += 1
            continue
        m = _RE_CREATE_TABLE.match(s)
        if m:
            body: List[str] = []
            i += 1
            while i < n and lines[i].strip() != ');':
                body.append(lines[i])
                i += 1
            if i >= n:
                raise Unreadable('unterminated CREATE TABLE')
            i += 1
            out.append(_table(m.group('q'), body, take_comment()))
            continue
        m = _RE_COMMENT.match(s)
        if m:
            # the literal runs to the next single quote (embedded quotes must have been neutralised)
            start = ln.index(m.group(0)) + len(m.group(0))
            rest = ln[start:]
            j = i
            while "'" not in rest:
                j += 1
                if j >= n:
                    raise Unreadable('unterminated COMMENT literal')
                rest += '\n' + lines[j]
            k = rest.index("'")
            body_text, tail = rest[:k], rest[k + 1:]
            if tail.strip() != ';':
                raise Unreadable('text after COMMENT literal: %r' % tail[:60])
            out.append({'k': 'comment', 'what': m.group('what').upper(), 'target': _parts(m.group('target')),
                        'text': body_text, 'comment': take_comment()})
            i = j + 1
            continue
        m = _RE_ALTER.match(s)
        if m:
            d = _fk(m, take_comment())
            d.update({'k': 'alter', 'q': _parts(m.group('q'))})
            out.append(d)
            i += 1
            continue
        m = _RE_INDEX.match(s)
        if m:
            out.append({'k': 'index', 'unique': bool(m.group('uq')), 'name': (m.group('name') or '""')[1:-1],
                        'on': _parts(m.group('on') or ''), 'using': (m.group('using') or ''),
                        'subj': _subjects(m.group('keys')), 'comment': take_comment()})
            i += 1
            continue
        raise Unreadable('statement %r' % s[:120])
    if pending:
        out.append({'k': 'dangling_comment', 'comment': '\n'.join(pending)})
    return out


def _table(q: str, body: List[str], comment: str) -> Dict[str, Any]:
    cols, pks, fks = [], [], []
    pend: List[str] = []
    # entries are separated by a comma at the end of a line
    entries: List[Tuple[str, List[str]]] = []
    cur: List[str] = []
    for ln in body:
        t = ln.strip()
        if not t and not cur:
            continue                     # an empty line between entries (the whole body of a table without columns)
        if t.startswith('--') and not cur:
            pend.append(t[2:].strip())
            continue
        cur.append(ln.rstrip())
        if t.endswith(','):
            entries.append(('\n'.join(cur).strip()[:-1], '\n'.join(pend)))
            cur, pend = [], []
    if cur:
        entries.append(('\n'.join(cur).strip(), '\n'.join(pend)))
    for e, ecomment in entries:
        flat = _flat(e)
        m = _RE_PK.match(e)
        if m:
            pks.append({'subj': _subjects(m.group('keys')), 'comment': ecomment})
            continue
        m = _RE_FK_CLAUSE.match(flat)
        if m:
            fks.append(_fk(m, ecomment))
            continue
        m = _RE_COL.match(e)
        if m:
            cols.append({'name': m.group('name')[1:-1], 'type': m.group('type').strip(), 'pk': bool(m.group('pk')),
                         'ai': bool(m.group('ai')), 'uq': bool(m.group('uq')), 'nn': bool(m.group('nn')),
                         'hasdef': bool(m.group('dk')),
                         'def': m.group('def') or '', 'comment': ecomment})
            continue
        raise Unreadable('table entry %r' % e[:120])
    return {'k': 'table', 'q': _parts(q), 'cols': cols, 'pks': pks, 'fks': fks, 'comment': comment}
