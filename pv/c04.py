"""C04 -- every relationship becomes exactly one correctly directed FOREIGN KEY in SQL.

SqlExec!ExpFks(model): `>` and `-` put the key on the left table, `<` on the right one, column
order kept on both sides, CONSTRAINT name, ON UPDATE / ON DELETE; inline = clause inside the
holder's CREATE TABLE, otherwise ALTER TABLE on the holder, never both, each exactly once;
many-to-many = join table <left>_<right> in the left schema + two foreign keys.  The statements
read back from db.sql are executed on the catalog machine and compared."""
import sys
from . import sqlcheck

if __name__ == '__main__':
    sys.exit(sqlcheck.standard_main(
        'C04', ['c04'],
        'TLC-generated models rendered to SQL by /repo; DDL reader; TraceSql.tla compares the foreign keys and join tables read back '
        'with SqlExec!ExpFks / ExpJoinTables and requires every ALTER TABLE to be executable',
        'case = (model seed, route in {parsed, built, morphed = built from other content, rendered, edited in place}); non-trivial = the model has >= 1 reference',
        lambda it: bool(it['model']['refs']), 90001, 350, 6000))
