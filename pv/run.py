"""Entry point of ./check: runs pv.<module> as __main__ and classifies whatever escapes from it.

Every harness catches the exceptions its specification allows at the step where they may occur (refusals of the container, DBMLError
of the renderer on a defective model, parse errors of a malformed document).  An exception that nevertheless escapes is one of two
things, and the traceback tells which:

  * raised inside /repo's package (a `pydbml/` frame is the innermost non-harness frame): a public operation that the specification
    enables at that point failed -- no behaviour of the specification has that step, so it is reported as what it is, a VIOLATION
    with a replay file holding the traceback (replaying it re-runs the check);
  * raised in the machinery itself: exit 2 (never a property verdict).

On the unchanged tree nothing escapes (all checks pass), so this never raises an alarm there.
"""
from __future__ import annotations

import os
import runpy
import sys
import traceback


def _in_repo(text: str) -> bool:
    repo = os.environ.get('VERIF_REPO', '/repo').rstrip('/')
    return ('%s/pydbml/' % repo) in text


def main() -> int:
    mod = sys.argv[1]
    prop = mod.upper()
    sys.argv = ['pv.' + mod] + sys.argv[2:]
    if '--replay' in sys.argv:
        import json
        try:
            with open(sys.argv[sys.argv.index('--replay') + 1]) as f:
                if json.load(f).get('stimulus', {}).get('escaped'):
                    sys.argv = ['pv.' + mod]          # the stimulus of an escaped exception is the check itself
        except (OSError, ValueError, AttributeError):
            pass
    try:
        runpy.run_module('pv.' + mod, run_name='__main__', alter_sys=True)
        return 0
    except SystemExit as ex:
        code = ex.code
        return code if isinstance(code, int) else (0 if code is None else 1)
    except KeyboardInterrupt:
        raise
    except BaseException as ex:
        tb = ''.join(traceback.format_exception(type(ex), ex, ex.__traceback__))
        # the worker's traceback travels as the __cause__ (multiprocessing RemoteTraceback) and is part of the formatted text
        frames = [ln for ln in tb.splitlines() if ln.strip().startswith('File "')]
        inner = frames[-1] if frames else ''
        remote = [ln for ln in frames if '/pv/' not in ln and '/multiprocessing/' not in ln and '/concurrent/' not in ln and 'runpy' not in ln]
        sys.stderr.write(tb)
        if _in_repo(inner) or (remote and _in_repo(remote[-1]) and _in_repo(tb)):
            from . import core
            core.setup_env()
            rep = core.Report(prop, 'escaped exception')
            rep.rule = 'the check stopped at an exception raised inside the package under test during an operation the specification enables'
            rep.evaluations = 1
            rep.violation({'escaped': True, 'argv': sys.argv[1:]},
                          {'failing_clause': 'escaped: %s: %s' % (type(ex).__name__, str(ex)[:300]), 'traceback': tb[-6000:]})
            return rep.finish()
        print('MACHINERY-FAILURE %s: %s: %s' % (prop, type(ex).__name__, str(ex)[:500]), file=sys.stderr)
        return 2


if __name__ == '__main__':
    sys.exit(main())
