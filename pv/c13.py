"""C13 -- free text survives: notes normalise idempotently, no text breaks its literal.

Lexis.tla specifies the string-literal lexer, the careful author's writer, note normalisation and
the renderer's escaping helpers over sequences of characters; TLC checks on ALL texts up to a
length bound over the critical alphabet {a, n, blank, line break, ', ", \\, `} that writer and
lexer are inverse, that Norm is idempotent and that the renderer's literals lex back to the text.
Conformance: TLC emits every text with its three authored literals; the harness places each at
each of 12 text-bearing sites of a host document (authored route) and builds an object carrying
the text, renders it to DBML and parses that back (rendered route); TraceLexis.tla compares the
stored text with Norm(t) resp. t and requires the neighbouring elements to be untouched."""
from __future__ import annotations

import json
from typing import Any, Dict, List

from . import core, tlc

SITES = ['table_note', 'column_note', 'index_note', 'enumitem_note', 'group_note', 'project_note', 'sticky_note',
         'project_field', 'table_prop', 'column_prop', 'string_default', 'index_name']
STYLES = ['single', 'double', 'triple']

HOSTS = {
    'table_note': "Table t {\n  id int\n  Note: @LIT@\n  z int\n}\nEnum e {\n  a\n}\n",
    'column_note': "Table t {\n  id int [note: @LIT@, unique]\n  z int\n}\n",
    'index_note': "Table t {\n  id int\n  z int\n  indexes {\n    id [note: @LIT@, unique]\n    z\n  }\n}\n",
    'enumitem_note': "Enum e {\n  a [note: @LIT@]\n  b\n}\n",
    'group_note': "Table t {\n  id int\n}\nTableGroup g {\n  t\n  Note: @LIT@\n}\nEnum e {\n  a\n}\n",
    'project_note': "Project p {\n  Note: @LIT@\n  k: 'v'\n}\n",
    'sticky_note': "Note n {\n  @LIT@\n}\nEnum e {\n  a\n}\n",
    'project_field': "Project p {\n  k: @LIT@\n  k2: 'v'\n}\n",
    'table_prop': "Table t {\n  id int\n  k: @LIT@\n  k2: 'v'\n  z int\n}\n",
    'column_prop': "Table t {\n  id int [k: @LIT@, k2: 'v', unique]\n  z int\n}\n",
    'string_default': "Table t {\n  id int [default: @LIT@, unique]\n  z int\n}\n",
    'index_name': "Table t {\n  id int\n  indexes {\n    id [name: @LIT@, unique]\n  }\n}\n",
}


def _site_text(db, site):
    if site == 'table_note':
        return db.tables[0].note.text
    if site == 'column_note':
        return db.tables[0].columns[0].note.text
    if site == 'index_note':
        return db.tables[0].indexes[0].note.text
    if site == 'enumitem_note':
        return db.enums[0].items[0].note.text
    if site == 'group_note':
        return db.table_groups[0].note.text if db.table_groups[0].note else ''
    if site == 'project_note':
        return db.project.note.text
    if site == 'sticky_note':
        return db.sticky_notes[0].text
    if site == 'project_field':
        return db.project.items['k']
    if site == 'table_prop':
        return db.tables[0].properties['k']
    if site == 'column_prop':
        return db.tables[0].columns[0].properties['k']
    if site == 'string_default':
        d = db.tables[0].columns[0].default
        return d if isinstance(d, str) else '<%s>' % type(d).__name__
    if site == 'index_name':
        return db.tables[0].indexes[0].name or ''
    raise KeyError(site)


def _blank(proj, site):
    """the projection with the site's own text removed"""
    p = json.loads(json.dumps(proj))
    if site == 'table_note':
        p['tables'][0]['note'] = ''
    elif site == 'column_note':
        p['tables'][0]['cols'][0]['note'] = ''
    elif site == 'index_note':
        p['tables'][0]['idxs'][0]['note'] = ''
    elif site == 'enumitem_note':
        p['enums'][0]['items'][0]['note'] = ''
    elif site == 'group_note':
        p['groups'][0]['note'] = ''
    elif site == 'project_note':
        p['project']['note'] = ''
    elif site == 'sticky_note':
        p['notes'][0]['text'] = ''
    elif site == 'project_field':
        p['project']['items'][0][1] = ''
    elif site == 'table_prop':
        p['tables'][0]['props'][0][1] = ''
    elif site == 'column_prop':
        p['tables'][0]['cols'][0]['props'][0][1] = ''
    elif site == 'string_default':
        p['tables'][0]['cols'][0]['default'] = {}
    elif site == 'index_name':
        p['tables'][0]['idxs'][0]['name'] = ''
    return p


_REST: Dict[str, Any] = {}


def _rest_of_host(site):
    from pydbml import PyDBML
    from . import project as pj
    if site not in _REST:
        db = PyDBML(HOSTS[site].replace('@LIT@', "'x'"), allow_properties=True)
        _REST[site] = _blank(pj.project_db(db), site)
    return _REST[site]


SQL_SITES = ['table_note', 'column_note', 'expr_default', 'index_expr']


def _sql_case(it, rec):
    """object carrying the text -> .sql -> DDL reader -> the raw body of the literal / expression"""
    from pydbml import PyDBML
    from pydbml.classes import Note, Expression, Index
    from . import ddl
    text = ''.join(it['t'])
    site = it['site']
    db = PyDBML("Table t {\n  id int\n  z int\n}\n")
    t = db.tables[0]
    if site == 'table_note':
        t.note = Note(text)
    elif site == 'column_note':
        t.columns[0].note = Note(text)
    elif site == 'expr_default':
        t.columns[0].default = Expression(text)
    else:
        t.add_index(Index(subjects=[Expression(text), t.columns[1]]))
    sql = db.sql
    rec['_src'] = sql
    st = ddl.read(sql)
    expect_rest = ['table'] + (['comment'] if site.endswith('note') else []) + (['index'] if site == 'index_expr' else [])
    rec['rest'] = sorted(s['k'] for s in st) == sorted(expect_rest)
    if site == 'table_note':
        body = [s for s in st if s['k'] == 'comment' and s['what'] == 'TABLE' and s['target'] == ['t']][0]['text']
    elif site == 'column_note':
        body = [s for s in st if s['k'] == 'comment' and s['what'] == 'COLUMN' and s['target'] == ['t', 'id']][0]['text']
    elif site == 'expr_default':
        d = [s for s in st if s['k'] == 'table'][0]['cols'][0]['def']
        rec['rest'] = rec['rest'] and d.startswith('(') and d.endswith(')')
        body = d[1:-1]
    else:
        sj = [s for s in st if s['k'] == 'index'][0]['subj']
        rec['rest'] = rec['rest'] and len(sj) == 2 and sj[0]['k'] == 'expr' and sj[1] == {'k': 'col', 'v': 'z'}
        body = sj[0]['v']
    rec['ok'] = True
    rec['stored'] = list(body)


def _exec_chunk(items):
    from pydbml import PyDBML
    from . import project as pj
    out = []
    for it in items:
        if it['route'] == 'sql':
            rec = {'tid': it['tid'], 't': it['t'], 'site': it['site'], 'route': 'sql', 'style': 'none', 'ok': False, 'stored': [], 'rest': True}
            try:
                _sql_case(it, rec)
            except Exception as ex:
                rec['_err'] = '%s: %s' % (type(ex).__name__, str(ex)[:200])
            out.append(rec)
            continue
        text = ''.join(it['t'])
        site = it['site']
        rec = {'tid': it['tid'], 't': it['t'], 'site': site, 'route': it['route'], 'style': it['style'],
               'ok': False, 'stored': [], 'rest': True}
        try:
            if it['route'] == 'authored':
                src = HOSTS[site].replace('@LIT@', ''.join(it['lit']))
            else:
                db0 = PyDBML(HOSTS[site].replace('@LIT@', "'x'"), allow_properties=True)
                _set(db0, site, text)
                src = db0.dbml
            rec['_src'] = src
            db = PyDBML(src, allow_properties=True)
            rec['ok'] = True
            rec['stored'] = list(_site_text(db, site))
            rec['rest'] = _blank(pj.project_db(db), site) == _rest_of_host(site)
        except Exception as ex:
            rec['_err'] = '%s: %s' % (type(ex).__name__, str(ex)[:200])
        out.append(rec)
    return out


def _set(db, site, text):
    from pydbml.classes import Note
    if site == 'table_note':
        db.tables[0].note = Note(text)
    elif site == 'column_note':
        db.tables[0].columns[0].note = Note(text)
    elif site == 'index_note':
        db.tables[0].indexes[0].note = Note(text)
    elif site == 'enumitem_note':
        db.enums[0].items[0].note = Note(text)
    elif site == 'group_note':
        db.table_groups[0].note = Note(text)
    elif site == 'project_note':
        db.project.note = Note(text)
    elif site == 'sticky_note':
        db.sticky_notes[0].text = text
    elif site == 'project_field':
        db.project.items['k'] = text
    elif site == 'table_prop':
        db.tables[0].properties['k'] = text
    elif site == 'column_prop':
        db.tables[0].columns[0].properties['k'] = text
    elif site == 'string_default':
        db.tables[0].columns[0].default = text
    elif site == 'index_name':
        db.tables[0].indexes[0].name = text


def gen_texts(maxlen: int, rep: core.Report, nlines: int = 3):
    cfg = (open(tlc.SPEC_DIR + '/MC_Lexis.cfg').read().replace('MaxLen = 4', 'MaxLen = %d' % maxlen)
           .replace('NLines = 3', 'NLines = %d' % nlines) + 'INVARIANT Emit\n')
    res = tlc.require_ok(tlc.run('MC_Lexis', cfg_text=cfg, workers=core.NCPU, timeout=3000), 'MC_Lexis')
    if res.violated:
        raise core.Machinery('design-level property %s violated in MC_Lexis\n%s' % (res.violated, res.out[-2000:]))
    rep.add_tlc('MC_Lexis MaxLen=%d' % maxlen, res)
    texts = [p for p in res.prints if p and p[0] == 'T']
    if len(texts) != res.distinct:
        raise core.Machinery('MC_Lexis: %d texts emitted for %d states' % (len(texts), res.distinct))
    return texts


def main(argv: List[str]) -> int:
    rep = core.Report('C13', 'Lexis.tla model-checked over all texts up to a length bound; every text x 12 sites x 3 styles authored, '
                             'and x 12 sites rendered, executed on /repo; TraceLexis.tla compares stored text with Norm(t) / t')
    rep.rule = ('case = (text, site, route, style); texts = ALL sequences up to the bound over {a, n, blank, LF, \', ", \\, `}; '
                'distinct by that tuple; non-trivial = the text has a character outside [a-z ]')
    rep.assumptions = ['host documents are fixed per site (pv/c13.py HOSTS); the literal is spliced in verbatim',
                       'SQL literal clause is decided by the SQL checks (DDL reader)']
    maxlen = 4 if core.tier() == 'quick' else 5
    nlines = 3 if core.tier() == 'quick' else 4
    texts = gen_texts(maxlen, rep, nlines)
    # the layout family (lines with indentation, see MC_Lexis) is executed where layout matters: notes, as triple-quoted
    # literals and rendered
    def is_layout(x):
        return len(x[1]) > maxlen and set(x[1]) <= set('an \n')
    layout = [x for x in texts if is_layout(x)]
    texts = [x for x in texts if not is_layout(x)]
    r = core.rng('c13')
    if core.tier() == 'quick':
        short = [x for x in texts if len(x[1]) <= 3 or len(x[1]) > maxlen]      # (longer than the bound: the hand-picked extras)
        longer = [x for x in texts if 3 < len(x[1]) <= maxlen]
        texts = short + r.sample(longer, min(len(longer), 700))
        layout_sites = ['table_note', 'sticky_note', 'column_note']
    else:
        rep.exhaustive = True
        layout_sites = [s for s in SITES if s.endswith('_note')]
    items: Dict[int, Dict[str, Any]] = {}
    tid = 0
    for pi, p in enumerate(texts):
        t = p[1]
        lits = {'single': p[2], 'double': p[3], 'triple': p[4]}
        # thorough: every text up to length 4 at every site; the 32 768 texts of length 5 at four sites each, by rotation
        sites = SITES if len(t) < 5 else [SITES[(pi + k * 3) % len(SITES)] for k in range(4)]
        for site in sites:
            for style in STYLES:
                tid += 1
                items[tid] = {'tid': tid, 't': t, 'site': site, 'route': 'authored', 'style': style, 'lit': lits[style]}
            tid += 1
            items[tid] = {'tid': tid, 't': t, 'site': site, 'route': 'rendered', 'style': 'none', 'lit': []}
        for site in SQL_SITES:
            tid += 1
            items[tid] = {'tid': tid, 't': t, 'site': site, 'route': 'sql', 'style': 'none', 'lit': []}
    for p in layout:
        for site in layout_sites:
            tid += 1
            items[tid] = {'tid': tid, 't': p[1], 'site': site, 'route': 'authored', 'style': 'triple', 'lit': p[4]}
            tid += 1
            items[tid] = {'tid': tid, 't': p[1], 'site': site, 'route': 'rendered', 'style': 'none', 'lit': []}
    rep.notes['layout_texts'] = len(layout)
    chunks = core.chunked(list(items.values()), core.NCPU * 4)
    recs: List[Dict[str, Any]] = []
    for part in core.pmap(_exec_chunk, chunks):
        recs += part
    extra = {x['tid']: {k: x.pop(k) for k in list(x) if k.startswith('_')} for x in recs}
    verdicts, st = core.validate('TraceLexis', 'TraceLexis.cfg', recs, shards=core.NCPU)
    rep.add_val_stats('TraceLexis', st)
    known = {k['id'] for k in core.known_findings('C13')}
    ood = 0
    for x in recs:
        v = verdicts[x['tid']]
        it = items[x['tid']]
        if v == 'out-of-domain':
            ood += 1
            continue
        rep.evaluations += 1
        if v == '':
            rep.traces_ok += 1
            if any(c not in 'abcdefghijklmnopqrstuvwxyz ' for c in it['t']):
                rep.mark_nontrivial([it['t'], it['site'], it['route'], it['style']])
        elif v.startswith('dev:') and v[4:] in known:
            rep.known(v[4:])
            rep.traces_ok += 1
        else:
            rep.violation({k: it[k] for k in it if k != 'tid'}, {'failing_clause': v, 'source': extra[x['tid']].get('_src'),
                                                                 'stored': ''.join(x['stored']), 'error': extra[x['tid']].get('_err')})
    combos = {}
    for x in recs:
        if verdicts[x['tid']] != 'out-of-domain':
            it = items[x['tid']]
            k = '%s/%s/%s' % (it['site'], it['route'], it['style'])
            combos[k] = combos.get(k, 0) + 1
    rep.notes['judged_by_site_route_style'] = dict(sorted(combos.items()))
    want = ['%s/authored/%s' % (s, st) for s in SITES for st in STYLES] + ['%s/rendered/none' % s for s in SITES] + ['%s/sql/none' % s for s in SQL_SITES]
    never = [k for k in want if not combos.get(k)]
    if never:
        raise core.Machinery('C13: site/route/style combinations never judged: %s' % never)
    rep.notes['texts'] = len(texts)
    rep.notes['max_len'] = maxlen
    rep.notes['out_of_domain_skipped'] = ood
    rep.samples.append({'text': ''.join(items[40]['t']), 'site': items[40]['site'], 'literal': ''.join(items[40]['lit'])})
    return rep.finish()


def replay(path: str) -> int:
    core.setup_env()
    v = json.load(open(path))
    it = dict(v['stimulus'])
    it['tid'] = 1
    recs = _exec_chunk([it])
    for x in recs:
        for k in list(x):
            if k.startswith('_'):
                print(k, x.pop(k))
    verdicts, _ = core.validate('TraceLexis', 'TraceLexis.cfg', recs)
    print('verdict: %r' % verdicts[1])
    if verdicts[1] not in ('', 'out-of-domain') and not (verdicts[1].startswith('dev:') and verdicts[1][4:] in {k['id'] for k in core.known_findings('C13')}):
        print('VIOLATION property=C13 replay=%s' % path)
        return 1
    return 0


if __name__ == '__main__':
    import sys
    try:
        if '--replay' in sys.argv:
            sys.exit(replay(sys.argv[sys.argv.index('--replay') + 1]))
        sys.exit(main(sys.argv[1:]))
    except (core.Machinery, tlc.TlcFailure) as ex:
        print('MACHINERY-FAILURE C13: %s' % ex, file=sys.stderr)
        sys.exit(2)
