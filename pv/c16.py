"""C16 -- element and database renderings agree and use the configured renderers.

Renderers.tla: a session is a seeded sequence of render / detach steps over a generated database
configured with default or PARTIAL custom renderer classes (handlers for tables, enums and the
database only; tagged output) through Database(...), PyDBML(src, ...) or PyDBML.parse(src, ...).
TLC computes for every step which class must have produced the text (configured class for attached
elements and their columns, empty string for unhandled types, default for detached elements),
requires equal text for repeated renderings, an unchanged model, and -- for default renderers --
that each top-level element's text occurs exactly once in the database text."""
from __future__ import annotations

import hashlib
import json
import sys
from typing import Any, Dict, List

from . import core, tlc, docs, doccheck
from .surface import print_doc

CFG = '''CONSTANTS
  SeedLo = %d
  SeedHi = %d
  WithProps = FALSE
  WithComments = FALSE
INIT Init
NEXT Next
INVARIANT EmitSession
CHECK_DEADLOCK FALSE
'''
CONFIGS = [{'sql': 'default', 'dbml': 'default'}, {'sql': 'custom', 'dbml': 'default'}, {'sql': 'default', 'dbml': 'custom'},
           {'sql': 'custom', 'dbml': 'custom'}]
ROUTES = ['built', 'ctor', 'parse', 'ctor_path', 'ctor_file', 'instance', 'morphed']       # every way the renderer classes can be handed over

_CLASSES = None


def classes():
    """the harness's partial custom renderers: handlers for Table, Enum and the database only"""
    global _CLASSES
    if _CLASSES is None:
        from pydbml.renderer.base import BaseRenderer
        from pydbml.classes import Table, Enum

        class TagSQL(BaseRenderer):
            model_renderers = {}

            @classmethod
            def render_db(cls, db):
                return 'TAGSQL:db:' + '|'.join(cls.render(t) for t in db.tables)

        class TagDBML(BaseRenderer):
            model_renderers = {}

            @classmethod
            def render_db(cls, db):
                return 'TAGDBML:db:' + '|'.join(cls.render(t) for t in db.tables)
        # the same partial renderers written as SUBCLASSES OF THE DEFAULT ONES with a handler table of their own (what is
        # inherited must not leak: neither handlers nor anything a renderer class remembers)
        from pydbml.renderer.sql.default import DefaultSQLRenderer
        from pydbml.renderer.dbml.default import DefaultDBMLRenderer

        class DerivedSQL(DefaultSQLRenderer):
            model_renderers = {}

            @classmethod
            def render_db(cls, db):
                return 'TAGSQL:db:' + '|'.join(cls.render(t) for t in db.tables)

        class DerivedDBML(DefaultDBMLRenderer):
            model_renderers = {}

            @classmethod
            def render_db(cls, db):
                return 'TAGDBML:db:' + '|'.join(cls.render(t) for t in db.tables)
        # ... and subclasses that INHERIT render_db from the default renderer: the database text is then the default layout of
        # what THIS class renders for each element (tags for tables and enums, nothing for the rest)
        class InheritSQL(DefaultSQLRenderer):
            model_renderers = {}

        class InheritDBML(DefaultDBMLRenderer):
            model_renderers = {}
        for C, tag in ((TagSQL, 'TAGSQL'), (TagDBML, 'TAGDBML'), (DerivedSQL, 'TAGSQL'), (DerivedDBML, 'TAGDBML'),
                       (InheritSQL, 'TAGSQL'), (InheritDBML, 'TAGDBML')):
            C.renderer_for(Table)(lambda m, tag=tag: '%s:Table:%s.%s' % (tag, m.schema, m.name))
            C.renderer_for(Enum)(lambda m, tag=tag: '%s:Enum:%s.%s' % (tag, m.schema, m.name))
        _CLASSES = ((TagSQL, TagDBML), (DerivedSQL, DerivedDBML), (InheritSQL, InheritDBML))
    return _CLASSES


def _exec_items(items):
    from pydbml import PyDBML
    from pydbml.renderer.sql.default import DefaultSQLRenderer
    from pydbml.renderer.dbml.default import DefaultDBMLRenderer
    from . import project as pj, builder
    out = []
    for it in items:
        cfg = it['cfg']
        TagSQL, TagDBML = classes()[it['tid'] % 3]        # derived from BaseRenderer / from the default renderers / the latter with render_db inherited
        inherit = it['tid'] % 3 == 2
        kw = {'sql_renderer': TagSQL if cfg['sql'] == 'custom' else DefaultSQLRenderer,
              'dbml_renderer': TagDBML if cfg['dbml'] == 'custom' else DefaultDBMLRenderer}
        if it['route'] == 'morphed':
            # built from another content, rendered, edited in place into this content (pv/builder.py)
            db = builder.build_morphed(it['model'], ('refs', 'names', 'settings', 'types')[it['tid'] % 4:][:1] + ('refs',), **kw)
        elif it['route'] == 'built':
            db = builder.build(it['model'], **kw)
        elif it['route'] == 'ctor':
            db = PyDBML(print_doc(it['doc'], None, {}), **kw)
        elif it['route'] in ('ctor_path', 'ctor_file'):
            import os
            import tempfile
            from pathlib import Path
            from . import tlc as _tlc
            fd, fn = tempfile.mkstemp(suffix='.dbml', dir=_tlc.scratch())
            with os.fdopen(fd, 'w', encoding='utf8') as f:
                f.write(print_doc(it['doc'], None, {}))
            try:
                if it['route'] == 'ctor_path':
                    db = PyDBML(Path(fn), **kw)
                else:
                    with open(fn, encoding='utf8') as f:
                        db = PyDBML(f, **kw)
            finally:
                os.unlink(fn)
        elif it['route'] == 'instance':
            db = PyDBML().parse(print_doc(it['doc'], None, {}), **kw)
        else:
            db = PyDBML.parse(print_doc(it['doc'], None, {}), **kw)
        if it['route'] == 'built':
            # one Note OBJECT handed to several owners through the public setter (tables carrying the same note text): whatever
            # that means for the note's owner link, RENDERING must not change it
            seen_notes = {}
            for t in db.tables:
                if t.note and t.note.text:
                    if t.note.text in seen_notes:
                        t.note = seen_notes[t.note.text]
                    else:
                        seen_notes[t.note.text] = t.note
        s0 = pj.project_db(db)
        links0 = pj.project_links(db)

        def obj(el):
            k, i = el['k'], el['i']
            return {'db': lambda: db, 'table': lambda: tables[i - 1], 'column': lambda: tables[i - 1].columns[0],
                    'enum': lambda: enums[i - 1], 'ref': lambda: refs[i - 1], 'group': lambda: groups[i - 1],
                    'sticky': lambda: notes[i - 1], 'project': lambda: project}[k]()
        tables, enums, refs, groups, notes, project = (list(db.tables), list(db.enums), list(db.refs), list(db.table_groups),
                                                       list(db.sticky_notes), db.project)
        obs = []
        detached = False
        for s in it['sess']:
            o = obj(s['el'])
            if s['op'] == 'detach':
                try:
                    if s['el']['k'] == 'ref' and it['tid'] % 2 and o.database is db:
                        # by VALUE: an equal reference built anew names the member to remove (Reference equality ignores the owner)
                        from pydbml.classes import Reference
                        db.delete(Reference(o.type, list(o.col1), list(o.col2), name=o.name, comment=o.comment, on_update=o.on_update,
                                            on_delete=o.on_delete, inline=o.inline))
                    else:
                        db.delete(o)
                except Exception:
                    pass            # already detached
                detached = True
                obs.append({'class': 'detach', 'hash': ''})
                continue
            if s['op'] == 'addcopy':
                from pydbml.classes import Enum, EnumItem
                twin = Enum(o.name, [EnumItem(i.name, note=(i.note.text if i.note else None), comment=i.comment) for i in o.items],
                            schema=o.schema, comment=o.comment)
                try:
                    db.add(twin)
                    db.delete(twin)              # (the enum itself was detached earlier: the copy is taken out again)
                except Exception:
                    pass                         # refused: a member carries this name
                try:
                    text = getattr(twin, s['out'])
                    cls = 'custom' if text.startswith('TAG') else ('empty' if text == '' else 'default')
                except Exception as ex:
                    text, cls = '', 'error:' + type(ex).__name__
                obs.append({'class': cls, 'hash': hashlib.sha1(text.encode('utf8')).hexdigest()[:12]})
                continue
            if s['op'] == 'readd':
                try:
                    db.add(o)           # a member: refused (the project: replaced by itself); a detached element: attached again
                except Exception:
                    pass
                obs.append({'class': 'readd', 'hash': ''})
                continue
            try:
                text = getattr(o, s['out'])
                cls = 'custom' if text.startswith('TAG') else ('empty' if text == '' else 'default')
                if inherit and s['el']['k'] == 'db' and cfg[s['out']] == 'custom':
                    # inherited render_db: the default LAYOUT (blank lines between elements) around this class's own renderings;
                    # it is this class's work iff no default statement shows and every table is tagged
                    own = ('CREATE' not in text and 'Table "' not in text and 'Enum "' not in text and 'Ref ' not in text
                           and text.count('TAG') >= len(db.tables))
                    cls = 'custom' if own else 'default'
            except Exception as ex:
                text, cls = '', 'error:' + type(ex).__name__
            if cls == 'empty':
                # would the DEFAULT renderer also give the empty string here (e.g. a database without content)?
                try:
                    R = DefaultSQLRenderer if s['out'] == 'sql' else DefaultDBMLRenderer
                    if (R.render_db(o) if s['el']['k'] == 'db' else R.render(o)) == '':
                        cls = 'empty-also-by-default'
                except Exception:
                    pass
            obs.append({'class': cls, 'hash': hashlib.sha1(text.encode('utf8')).hexdigest()[:12]})
        counts = []
        if not detached and cfg == {'sql': 'default', 'dbml': 'default'}:
            for kind in ('sql', 'dbml'):
                whole = getattr(db, kind)
                elems = [('tables[%d]' % (i + 1), t) for i, t in enumerate(db.tables)] + [('enums[%d]' % (i + 1), e) for i, e in enumerate(db.enums)] \
                    + [('refs[%d]' % (i + 1), r) for i, r in enumerate(db.refs) if not r.inline]
                if kind == 'dbml':
                    elems += [('table_groups[%d]' % (i + 1), g) for i, g in enumerate(db.table_groups)] \
                        + [('sticky_notes[%d]' % (i + 1), n) for i, n in enumerate(db.sticky_notes)]
                    if db.project:
                        elems.append(('project', db.project))
                texts = [(name, getattr(o, kind)) for name, o in elems]
                same: Dict[str, int] = {}
                for _, text in texts:
                    same[text] = same.get(text, 0) + 1        # two distinct elements may render alike (mirror-twin references)
                for name, text in texts:
                    if text:
                        counts.append(['%s.%s' % (name, kind), whole.count(text), same[text]])
        if not detached:
            # ... and every rendering of the database and of each table once more before the model is looked at again
            for kind in ('sql', 'dbml'):
                for o in [db] + list(reversed(db.tables)):          # (the first table last: not the order the database renders them in)
                    try:
                        getattr(o, kind)
                    except Exception:
                        pass
        s_end = pj.project_db(db)
        links_end = pj.project_links(db)
        moved_links = sorted(k for k in links0 if links0[k] != links_end.get(k)) if not detached else []
        later = ''
        if not detached and it['route'] == 'built':
            # the same edits on this database (its renderings were evaluated above) and on a twin that was never rendered
            twin = builder.build(it['model'], **kw)
            seen_notes = {}
            for t in twin.tables:                  # the same sharing of Note objects as in the database under test
                if t.note and t.note.text:
                    if t.note.text in seen_notes:
                        t.note = seen_notes[t.note.text]
                    else:
                        seen_notes[t.note.text] = t.note
            for d in (db, twin):
                for t in d.tables:
                    t.name = (t.name or '') + '_later'
                    if it['tid'] % 3 == 0:
                        t.schema = 'later'
                    for col in t.columns[:2]:
                        col.name = (col.name or '') + '_later'
                        if isinstance(col.type, str):
                            col.type = 'later_type'
                for e_ in d.enums:
                    e_.name = (e_.name or '') + '_later'
            for kind in ('sql', 'dbml'):
                pairs = [('db', db, twin)] + [('tables[%d]' % (i + 1), a, b) for i, (a, b) in enumerate(zip(db.tables, twin.tables))] \
                    + [('refs[%d]' % (i + 1), a, b) for i, (a, b) in enumerate(zip(db.refs, twin.refs))]
                for name, a, b in pairs:
                    def txt(o):
                        try:
                            return getattr(o, kind)
                        except Exception as ex:
                            return 'EXC:' + type(ex).__name__
                    if not later and txt(a) != txt(b):
                        later = '%s.%s' % (name, kind)
        out.append({'tid': it['tid'], 'model': it['model'], 'cfg': cfg, 'sd': it['seed'], 'obs': obs, 's0': s0,
                    's_end': s_end, 'counts': counts, 'later': later, 'linksmoved': moved_links})
    return out


def _exec_chunk(items):
    """One item at a time; an exception that escapes from an operation the specification enables at any time (building, parsing,
    rendering the database for the containment count, reading the model back) is an observation, not a harness failure."""
    out = []
    for it in items:
        try:
            out += _exec_items([it])
        except Exception as ex:
            import traceback
            fr = [f for f in traceback.extract_tb(ex.__traceback__) if '/pydbml/' in f.filename]
            where = '%s:%s' % (fr[-1].filename.split('/pydbml/')[-1], fr[-1].name) if fr else 'harness'
            if not fr:
                raise
            out.append({'tid': it['tid'], 'crash': '%s (%s) at %s' % (type(ex).__name__, str(ex)[:120], where), 'obs': [], 'counts': []})
    return out


def run_items(items, rep, label):
    recs: List[Dict[str, Any]] = []
    for part in core.pmap(_exec_chunk, core.chunked(items, core.NCPU * 4)):
        recs += part
    crashed = [r for r in recs if 'crash' in r]
    recs = [r for r in recs if 'crash' not in r]
    verdicts, st = core.validate('TraceRenderers', 'TraceRenderers.cfg', recs) if recs else ({}, {})
    if recs:
        rep.add_val_stats('TraceRenderers ' + label, st)
    res = {r['tid']: (verdicts[r['tid']], r) for r in recs}
    for r in crashed:
        # Renderers.tla: Build/Render/Project are total on well-formed models; no behaviour of the specification has this step failing
        res[r['tid']] = ('escaped: building, rendering or reading back a well-formed database raised ' + r['crash'], r)
    return res


def main(argv: List[str]) -> int:
    rep = core.Report('C16', 'Renderers.tla: seeded sessions of render/detach steps over generated databases x 4 renderer configurations x 3 '
                             'ways of passing them; class, purity and containment of every rendering validated by TLC')
    rep.rule = ('case = (model seed = session seed, configuration, route); sessions of 2..9 steps over all elements incl. columns; '
                'non-trivial = the session renders >= 2 times')
    rep.assumptions = ['the partial custom renderer (handlers for Table, Enum, database) is defined by the harness and mirrored by Renderers!CustomHandles',
                       'detached tables/columns are C17\'s subject (they refuse to render); detach here = Database.delete of enum, reference, group, project']
    n = doccheck.budget(150, 3000)
    lo = core.seed() * 100000 + 12001
    res = tlc.require_ok(tlc.run_sharded('MC_Renderers', lambda a, b: CFG % (a, b), lo, lo + n - 1, timeout=3000), 'MC_Renderers')
    rep.add_tlc('MC_Renderers', res)
    ds = sorted([(p[1], json.loads(p[2])) for p in res.prints if p and p[0] == 'DOC'], key=lambda x: x[0])
    if not ds:
        raise core.Machinery('MC_Renderers produced nothing')
    items = {}
    tid = 0
    for seed, d in ds:
        for cfg in CONFIGS:
            for route in ROUTES:
                tid += 1
                items[tid] = {'tid': tid, 'seed': seed, 'doc': d['doc'], 'model': d['model'], 'sess': d['sess'], 'cfg': cfg, 'route': route}
    out = run_items(list(items.values()), rep, 'C16')
    for tid, (v, r) in out.items():
        it = items[tid]
        rep.evaluations += 1
        if v == '':
            rep.traces_ok += 1
            if sum(1 for s in it['sess'] if s['op'] == 'render') >= 2:
                rep.mark_nontrivial([it['seed'], it['cfg'], it['route']])
        else:
            rep.violation({k: it[k] for k in it if k != 'tid'}, {'failing_clause': v, 'observed': r['obs'], 'counts': r['counts']})
    seen = {}
    for tid, (v, r) in out.items():
        it = items[tid]
        for s, o in zip(it['sess'], r['obs']):
            k = '%s %s.%s -> %s' % (s['op'], s['el']['k'], s.get('out', ''), o['class'])
            seen[k] = seen.get(k, 0) + 1
        seen['route ' + it['route']] = seen.get('route ' + it['route'], 0) + 1
        seen['config %s/%s' % (it['cfg']['sql'], it['cfg']['dbml'])] = seen.get('config %s/%s' % (it['cfg']['sql'], it['cfg']['dbml']), 0) + 1
    rep.notes['steps_by_element_output_and_class'] = dict(sorted(seen.items()))
    want = ['render %s.%s -> %s' % (k, o, c) for k in ('table', 'enum') for o in ('sql', 'dbml') for c in ('default', 'custom')] + \
           ['render %s.%s -> %s' % (k, 'dbml', c) for k in ('ref', 'group', 'sticky', 'project', 'column') for c in ('default', 'empty')] + \
           ['render db.%s -> %s' % (o, c) for o in ('sql', 'dbml') for c in ('default', 'custom')] + ['route ' + x for x in ROUTES]
    never = [k for k in want if not seen.get(k)]
    if never or not any(k.startswith('detach') for k in seen) or not any(k.startswith('readd project') for k in seen) \
            or not any(k.startswith('addcopy') for k in seen):
        raise core.Machinery('C16: never observed: %s' % never)
    rep.notes['sessions'] = len(ds)
    rep.samples.append({'seed': ds[0][0], 'session': ds[0][1]['sess'], 'observed': out[1][1]['obs']})
    return rep.finish()


def replay(path: str) -> int:
    core.setup_env()
    v = json.load(open(path))
    it = dict(v['stimulus'])
    it['tid'] = 1
    rep = core.Report('C16', 'replay')
    out = run_items([it], rep, 'replay')
    print('verdict: %r' % out[1][0])
    if out[1][0]:
        print('VIOLATION property=C16 replay=%s' % path)
        return 1
    return 0


if __name__ == '__main__':
    try:
        if '--replay' in sys.argv:
            sys.exit(replay(sys.argv[sys.argv.index('--replay') + 1]))
        sys.exit(main(sys.argv[1:]))
    except (core.Machinery, tlc.TlcFailure) as ex:
        print('MACHINERY-FAILURE C16: %s' % ex, file=sys.stderr)
        sys.exit(2)
