"""C11 -- parsing is deterministic, history-independent and re-entrant.

Concurrent.tla models several parses over the module-level grammar objects at the granularity of
PyDBMLParser's steps (set syntax / collect a declaration / add to the database) and is checked by
TLC for all interleavings (GrammarUntouched, ResultIsOwnDocument, NoSharing; the mutant that
attaches callbacks to the shared elements is refuted).  Conformance, three ways:
 (1) every maximal schedule TLC finds is REPLAYED: each parse runs in its own thread and a
     deterministic scheduler lets exactly one of them advance to its next yield point;
 (2) free-running threads with a tiny switch interval;
 (3) sequential histories: parse, parse a document that fails half-way, edit an earlier result,
     parse again, drop everything and collect garbage.
After every step the fingerprint of the shared grammar is recorded; results are projected and
compared by TLC with Doc!ParseDoc; object identities of different results must be disjoint; weak
references to everything a parse created must die once the caller drops the result."""
from __future__ import annotations

import gc
import time
import json
import sys
import threading
import weakref
from typing import Any, Dict, List

from . import core, tlc, docs, doccheck
from .surface import print_doc

_TLS = threading.local()
_SCHED = None
_INSTALLED = False


def grammar_fp() -> List[int]:
    """number of parse actions attached anywhere in the module-level grammar objects"""
    import pydbml.definitions.table as dt
    import pydbml.definitions.reference as dr
    import pydbml.definitions.enum as de
    import pydbml.definitions.table_group as dg
    import pydbml.definitions.project as dp
    import pydbml.definitions.sticky_note as dn
    roots = [dt.table, dt.table_with_properties, dr.ref, de.enum, dg.table_group, dp.project, dn.sticky_note]
    seen = set()
    acts = 0
    stack = list(roots)
    while stack:
        e = stack.pop()
        if id(e) in seen:
            continue
        seen.add(id(e))
        acts += len(getattr(e, 'parseAction', []) or [])
        subs = getattr(e, 'exprs', None)
        if subs:
            stack.extend(subs)
        sub = getattr(e, 'expr', None)
        if sub is not None:
            stack.append(sub)
    # (the NUMBER OF NODES is not part of the fingerprint: pyparsing streamlines -- merges nested And/Or nodes of -- a
    #  grammar lazily on its first use, which is not a change of what the grammar does)
    return [acts]


class Scheduler:
    """lets exactly one parse thread at a time advance to its next yield point"""

    def __init__(self):
        self.cv = threading.Condition()
        self.turn = None
        self.waiting = set()
        self.done = set()
        self.free = False

    def yield_point(self, pid):
        with self.cv:
            self.waiting.add(pid)
            self.cv.notify_all()
            while self.turn != pid and not self.free:
                self.cv.wait()
            if self.turn == pid:
                self.turn = None
            self.waiting.discard(pid)
            self.cv.notify_all()

    def finish(self, pid):
        with self.cv:
            self.done.add(pid)
            self.cv.notify_all()

    def step(self, pid) -> bool:
        """False = the thread is finished, or it did not arrive at a yield point in time (it is blocked on something the
        threads share, e.g. a lock: the schedule cannot be replayed; every thread is then released to run freely)"""
        with self.cv:
            if self.free:
                return False
            end = time.monotonic() + STEP_TIMEOUT
            while pid not in self.waiting and pid not in self.done:
                if not self.cv.wait(max(0.0, end - time.monotonic())) and time.monotonic() >= end:
                    return self._release()
            if pid in self.done:
                return False
            self.turn = pid
            self.cv.notify_all()
            while self.turn == pid or (pid not in self.waiting and pid not in self.done):
                if not self.cv.wait(max(0.0, end - time.monotonic())) and time.monotonic() >= end:
                    return self._release()
            return True

    def _release(self) -> bool:
        self.free = True
        self.cv.notify_all()
        return False


def install_yield_points():
    """wrap the parser's steps so that a scheduled thread pauses before each of them (harness-side; nothing in /repo changes)"""
    global _INSTALLED
    if _INSTALLED:
        return
    from pydbml.parser.parser import PyDBMLParser
    from pydbml.database import Database

    def wrap(cls, name):
        orig = getattr(cls, name)

        def wrapped(self, *a, **kw):
            pid = getattr(_TLS, 'pid', None)
            if pid is not None and _SCHED is not None:
                _SCHED.yield_point(pid)
            return orig(self, *a, **kw)
        wrapped.__name__ = name
        setattr(cls, name, wrapped)
    wrap(PyDBMLParser, '_set_syntax')
    wrap(PyDBMLParser, 'parse_blueprint')
    wrap(Database, 'add')
    _INSTALLED = True


def reachable_ids(db) -> Dict[int, str]:
    out: Dict[int, str] = {}

    def add(o, what):
        if o is not None:
            out[id(o)] = what
    add(db, 'Database')
    for t in db.tables:
        add(t, 'Table')
        add(t.note, 'Table.note')
        add(t.properties, 'Table.properties')
        add(t.columns, 'Table.columns')
        for c in t.columns:
            add(c, 'Column')
            add(c.note, 'Column.note')
            add(c.properties, 'Column.properties')
        for x in t.indexes:
            add(x, 'Index')
            add(x.note, 'Index.note')
            add(x.subjects, 'Index.subjects')
    for e in db.enums:
        add(e, 'Enum')
        add(e.items, 'Enum.items')
        for i in e.items:
            add(i, 'EnumItem')
            add(i.note, 'EnumItem.note')
    for r in db.refs:
        add(r, 'Reference')
        add(r.col1, 'Reference.col1')
        add(r.col2, 'Reference.col2')
    for g in db.table_groups:
        add(g, 'TableGroup')
        add(g.note, 'TableGroup.note')
        add(g.items, 'TableGroup.items')
    for n in db.sticky_notes:
        add(n, 'StickyNote')
    if db.project:
        add(db.project, 'Project')
        add(db.project.items, 'Project.items')
        add(db.project.note, 'Project.note')
    return out


def weak_targets(db) -> List[Any]:
    objs = [db] + list(db.tables) + list(db.enums) + list(db.refs) + list(db.table_groups) + list(db.sticky_notes)
    if db.project:
        objs.append(db.project)
    for t in db.tables:
        objs += list(t.columns) + [t.note]
    for g in db.table_groups:
        if g.note is not None:
            objs.append(g.note)
    out = []
    for o in objs:
        try:
            out.append(weakref.ref(o))
        except TypeError:
            pass
    return out


def edit_result(db):
    """edits of an earlier result that must not leak into anything else"""
    from pydbml.classes import Table, Column, Note
    if db.project:
        db.project.items['leak'] = 'EDITED'
        db.project.note = Note('EDITED')
    for t in db.tables:
        t.properties['leak'] = 'EDITED'
        t.note.text = 'EDITED'
        for c in t.columns:
            c.properties['leak'] = 'EDITED'
            c.note.text = 'EDITED'
    for g in db.table_groups:
        if g.note is not None:
            g.note.text = 'EDITED'
    for e in db.enums:
        for i in e.items:
            i.note.text = 'EDITED'
    nt = Table('zz_added')
    nt.add_column(Column('id', 'int'))
    db.add(nt)


STEP_TIMEOUT = 5.0


def live_parse_objects() -> int:
    """parser and blueprint objects alive in the process (there is no parse in progress when this is called)"""
    from pydbml.parser.parser import PyDBMLParser
    from pydbml.parser.blueprints import Blueprint
    gc.collect()
    return sum(1 for o in gc.get_objects() if isinstance(o, (PyDBMLParser, Blueprint)))


def run_case(it) -> Dict[str, Any]:
    global _SCHED
    from pydbml import PyDBML
    from . import project as pj
    texts = [print_doc(d, None, {}) for d in it['docs']]
    n = len(texts)
    results: List[Any] = [None] * n
    dbs: List[Any] = [None] * n
    fps = [grammar_fp()]
    blocked = False
    live: List[int] = []
    if it['kind'] == 'schedule':
        install_yield_points()
        _SCHED = Scheduler()

        def work(i):
            _TLS.pid = i + 1
            try:
                _SCHED.yield_point(i + 1)
                dbs[i] = PyDBML(texts[i], allow_properties=it['allows'][i])
            except Exception as ex:
                results[i] = {'kind': 'error', 'class': pj.classify(ex)}
            finally:
                _TLS.pid = None
                _SCHED.finish(i + 1)
        ths = [threading.Thread(target=work, args=(i,)) for i in range(n)]
        for t in ths:
            t.start()
        sched = list(it['sched'])
        k = 0
        while len(_SCHED.done) < n and not _SCHED.free:
            pid = sched[k % len(sched)]
            k += 1
            if _SCHED.step(pid):
                fps.append(grammar_fp())
        for t in ths:
            t.join(60)
        if any(t.is_alive() for t in ths):
            raise core.Machinery('C11: a parse thread did not finish within 60 s after being released')
        blocked = _SCHED.free
        _SCHED = None
    elif it['kind'] == 'threads':
        old = sys.getswitchinterval()
        sys.setswitchinterval(1e-6)
        try:
            def work(i):
                try:
                    dbs[i] = PyDBML(texts[i], allow_properties=it['allows'][i])
                except Exception as ex:
                    results[i] = {'kind': 'error', 'class': pj.classify(ex)}
            ths = [threading.Thread(target=work, args=(i,)) for i in range(n)]
            for t in ths:
                t.start()
            for t in ths:
                t.join()
        finally:
            sys.setswitchinterval(old)
        fps.append(grammar_fp())
    else:   # sequential history: every earlier result is edited before the next call
        for i in range(n):
            try:
                dbs[i] = PyDBML(texts[i], allow_properties=it['allows'][i])
            except Exception as ex:
                results[i] = {'kind': 'error', 'class': pj.classify(ex)}
            live.append(live_parse_objects())      # (the exception, its traceback and frames are gone here)
            fps.append(grammar_fp())
            if dbs[i] is not None:
                results[i] = pj.project_db(dbs[i])        # observed BEFORE this result is edited
                edit_result(dbs[i])
    for i in range(n):
        if results[i] is None and dbs[i] is not None:
            results[i] = pj.project_db(dbs[i])
    shared: List[str] = []
    idmaps = [reachable_ids(d) if d is not None else {} for d in dbs]
    for i in range(n):
        for j in range(i + 1, n):
            for k in set(idmaps[i]) & set(idmaps[j]):
                shared.append('%s (calls %d and %d)' % (idmaps[i][k], i + 1, j + 1))
    weak = [weak_targets(d) if d is not None else [] for d in dbs]
    del idmaps
    dbs[:] = [None] * n
    gc.collect()
    reclaimed = [all(w() is None for w in ws) for ws in weak]
    return {'tid': it['tid'], 'kind': it['kind'], 'docs': it['docs'], 'allows': it['allows'], 'results': results, 'fps': fps,
            'shared': sorted(set(shared))[:5], 'reclaimed': reclaimed, 'live': live, '_blocked': blocked}


def _exec_chunk(items):
    return [run_case(it) for it in items]


def main(argv: List[str]) -> int:
    rep = core.Report('C11', 'Concurrent.tla model-checked for all interleavings (mutant refuted); every maximal schedule replayed on real parser '
                             'threads by a deterministic scheduler; free-running threads; sequential histories with failed parses and edits; '
                             'results, grammar fingerprint, identity disjointness and reclamation validated by TLC (TraceConcurrent.tla)')
    rep.rule = ('case = (kind, documents, schedule); kinds: replayed schedule of 2 parses, 3-4 free-running threads, sequential history of 5 '
                'calls incl. one that fails; non-trivial = >= 2 parse calls overlap or an earlier result is edited')
    rep.assumptions = ['interleavings are explored at the granularity of _set_syntax / parse_blueprint / Database.add (yield points installed by '
                       'the harness by wrapping these methods at run time); finer races inside pyparsing are only sampled by the free-running threads',
                       'GC-based reclamation is observed with weak references after gc.collect()']
    quick = core.tier() == 'quick'
    res = tlc.require_ok(tlc.run('MC_Concurrent', workers=core.NCPU, timeout=3000), 'MC_Concurrent')
    if res.violated:
        raise core.Machinery('design-level property %s violated in MC_Concurrent' % res.violated)
    rep.add_tlc('MC_Concurrent', res)
    mut = tlc.run('MC_Concurrent', cfg_text=open(tlc.SPEC_DIR + '/MC_Concurrent.cfg').read().replace('SharedAttach = FALSE', 'SharedAttach = TRUE'),
                  workers=4, timeout=3000)
    if not mut.violated:
        raise core.Machinery('the shared-attach mutant of Concurrent.tla is not refuted: the model is vacuous')
    rep.notes['mutant_refuted_by'] = mut.violated
    scheds = [p[1] for p in res.prints if p and p[0] == 'SCHED']
    if not scheds:
        raise core.Machinery('no schedules from MC_Concurrent')
    r = core.rng('c11')
    lo = core.seed() * 100000 + 15001
    ds = [d for _, d in docs.gen_docs(lo, lo + (30 if quick else 200) - 1, False, rep, with_comments=True)]
    small = [d for d in ds if len(d) <= 5] or ds
    fs = [f['doc'] for _, f in docs.gen_faults(lo, lo + 6, rep)]
    items: List[Dict[str, Any]] = []

    dsp = [d for _, d in docs.gen_docs(lo + 500, lo + 500 + (20 if quick else 150) - 1, True, rep, with_comments=False)]
    smallp = [d for d in dsp if len(d) <= 5] or dsp

    def add(kind, dd, sched=None, allow=False):
        allows = list(allow) if isinstance(allow, (list, tuple)) else [allow] * len(dd)
        items.append({'tid': len(items) + 1, 'kind': kind, 'docs': dd, 'allows': allows, 'sched': sched or []})
    use = scheds if not quick else r.sample(scheds, min(len(scheds), 260))
    for k, s in enumerate(use):
        a = small[k % len(small)]
        b = a if k % 3 == 0 else small[(k * 7 + 1) % len(small)]
        if k % 5 == 4:
            b = fs[k % len(fs)]              # one of the two parses fails half-way
        if k % 4 == 3:                       # both parses with allow_properties=True (another grammar element is used)
            a, b = smallp[k % len(smallp)], smallp[(k * 7 + 1) % len(smallp)]
            add('schedule', [a, b], s, allow=True)
            continue
        if k % 4 == 1:                       # the two calls carry DIFFERENT options: each result follows its own call's
            add('schedule', [smallp[k % len(smallp)], b], s, allow=[True, False])
            continue
        add('schedule', [a, b], s)
    for k in range(40 if quick else 600):
        n = 3 + k % 2
        dd = [ds[(k + j * 5) % len(ds)] for j in range(n)]
        if k % 4 == 0:
            dd[1] = dd[0]
        if k % 3 == 2:
            add('threads', [dsp[(k + j * 5) % len(dsp)] for j in range(n)], allow=True)
            continue
        if k % 3 == 1:
            add('threads', [dsp[(k + j * 5) % len(dsp)] if j % 2 == 0 else dd[j] for j in range(n)], allow=[j % 2 == 0 for j in range(n)])
            continue
        add('threads', dd)
    for k in range(60 if quick else 800):
        d1, d2 = ds[k % len(ds)], ds[(k * 3 + 1) % len(ds)]
        if k % 3 == 2:
            p1, p2 = dsp[k % len(dsp)], dsp[(k * 3 + 1) % len(dsp)]
            add('history', [p1, p2, p1], allow=True)
            continue
        # the second call fails: alternately at build time (rule violation) and at parse time (a declaration the
        # grammar refuses AFTER complete ones: an unknown top-level element appended to a valid document)
        bad = fs[k % len(fs)] if k % 2 == 0 else d2 + [{'d': 'raw', 'text': '@ this is not DBML'}]
        add('history', [d1, bad, d1, d2, d1])
    recs: List[Dict[str, Any]] = []
    for part in core.pmap(_exec_chunk, core.chunked(items, core.NCPU * 2)):
        recs += part
    nblocked = sum(1 for r in recs if r.pop('_blocked', False))
    verdicts, st = core.validate('TraceConcurrent', 'TraceConcurrent.cfg', recs)
    rep.add_val_stats('TraceConcurrent', st)
    # a schedule that could not be replayed because a thread blocked outside the yield points (something the threads share, such
    # as a lock) is no violation by itself; its results were still compared
    rep.notes['schedules_abandoned_because_a_thread_blocked'] = nblocked
    per: Dict[str, int] = {}
    for rec in recs:
        it = items[rec['tid'] - 1]
        v = verdicts[rec['tid']]
        rep.evaluations += 1
        per[it['kind']] = per.get(it['kind'], 0) + 1
        if v == '':
            rep.traces_ok += 1
            rep.mark_nontrivial([it['kind'], rec['tid']])
        else:
            rep.violation({k: it[k] for k in it if k != 'tid'}, {'failing_clause': v, 'fps': rec['fps'][:3], 'shared': rec['shared'], 'reclaimed': rec['reclaimed']})
    rep.notes['cases_by_kind'] = per
    never = [k for k in ('schedule', 'threads', 'history') if not per.get(k)]
    if never:
        raise core.Machinery('C11: kinds of execution never run: %s' % never)
    rep.notes['schedules_from_tlc'] = len(scheds)
    rep.samples.append({'kind': 'schedule', 'schedule': scheds[len(scheds) // 2]})
    return rep.finish()


def replay(path: str) -> int:
    core.setup_env()
    v = json.load(open(path))
    it = dict(v['stimulus'])
    it['tid'] = 1
    recs = [run_case(it)]
    for r in recs:
        r.pop('_blocked', None)
    verdicts, _ = core.validate('TraceConcurrent', 'TraceConcurrent.cfg', recs)
    print('verdict: %r' % verdicts[1])
    if verdicts[1]:
        print('VIOLATION property=C11 replay=%s' % path)
        return 1
    return 0


if __name__ == '__main__':
    try:
        if '--replay' in sys.argv:
            sys.exit(replay(sys.argv[sys.argv.index('--replay') + 1]))
        sys.exit(main(sys.argv[1:]))
    except (core.Machinery, tlc.TlcFailure) as ex:
        print('MACHINERY-FAILURE C11: %s' % ex, file=sys.stderr)
        sys.exit(2)
