"""C14 -- comments are captured on the element they belong to and are otherwise inert (parse side).

capture: GenDoc!Commented declares comments on the positions where the property promises capture
  (above: table, enum, enum item, index, reference, project, table group; trailing: reference,
  index, column, enum item); the printer writes each one directly above its element or trailing
  its line, as `//` lines or a `/* */` block; TLC compares the parsed model, comment attributes
  included, with Doc!ParseDoc (text compared line-wise with surrounding blanks trimmed).
inert:   extra comments (one at a time at EVERY line gap and line end of small documents, several
  at once on larger ones; shapes: //, two // lines, one-line and multi-line blocks; contents with
  quotes, braces, DBML and SQL syntax) are inserted; TLC compares the models with every comment
  attribute masked (Doc!MaskComments).
The output-side clauses (comment lines in .dbml/.sql, DBML re-parse) are decided by the renderer
checks."""
from __future__ import annotations

import random
from typing import Any, Dict, List

from . import core, docs, doccheck
from .surface import Form, Printer

NOISE = ['// noise', '// first\n// second', '/* block */', '/* multi\n   line */', "// it's \"q\"", '// { } [ ] ( )',
         '// Table zz { id int }', "/* '); DROP TABLE x; -- */", '// a * b / c', "// note: 'x'", '/* Ref: a.b > c.d */',
         '//', '/**/', '// ünï 中', '/** banner **/', '/***/', '/* x **/',
         # a lone carriage return is a character of the comment like any other (only a line feed ends a `//` comment)
         '// cr\rTable ghost {\r  id int\r}', '/* cr\rinside */']


MID_NOISE = [t for t in NOISE if t.startswith('/*') and '\n' not in t]


def nlines(doc, fseed, pinned) -> int:
    return len(Printer(Form(fseed, pinned)).lines(doc))


def main(argv: List[str]) -> int:
    rep = core.Report('C14', 'TLC-generated documents with declared comments (capture) and with extra comments at every gap '
                             '(inertness), parsed by /repo; TLC compares with Doc!ParseDoc resp. under Doc!MaskComments')
    rep.rule = ('case = (document seed, surface form, set of inserted comments); capture cases carry >= 1 declared comment; '
                'inert cases insert >= 1 extra comment; distinct by (seed, form, insertions); all are non-trivial')
    rep.assumptions = ['comment text is compared line-wise with surrounding blanks trimmed',
                       'extra comments are written on lines of their own, at line ends, and as /* */ blocks inside a line at the places the printer marks (settings lists, before a settings list, before an opening brace, after `note:` / `default:`)']
    n = doccheck.budget(120, 2000)
    nrand = doccheck.budget(4, 10)
    lo = core.seed() * 100000 + 60001
    ds = docs.gen_docs(lo, lo + n - 1, False, rep, with_comments=True)
    items: Dict[int, Dict[str, Any]] = {}
    tid = 0
    r = core.rng('c14')
    for seed, doc in ds:
        plan = docs.form_plan(nrand, False, seed) + [(None, {'comment_style': 'block'}), (None, {'comment_place': 'trailing'}),
                                                       (None, {'comment_place': 'trailing', 'comment_style': 'block'}), (None, {'comment_place': 'both'}),
                                                       (None, {'comment_place': 'both', 'comment_style': 'block'}), (None, {'comment_place': 'both_empty'}),
                                                       (None, {'comment_place': 'both_empty', 'comment_style': 'block'})]
        for fseed, pinned in plan:
            tid += 1
            items[tid] = {'tid': tid, 'doc': doc, 'allow': tid % 3 == 0, 'want': 'model', 'fseed': fseed, 'pinned': pinned,
                          'seed': seed, 'gen': 'Commented', 'variant': 'capture'}
    # inertness: one comment at every gap (small documents), several random ones (all documents)
    small = [x for x in ds if nlines(x[1], None, {}) <= 30][:doccheck.budget(12, 150)]
    for seed, doc in small:
        L = nlines(doc, None, {})
        for pos in range(L + 1):
            for kind in ('own', 'trail', 'mid'):
                for text in r.sample(NOISE if kind != 'mid' else MID_NOISE, doccheck.budget(2, 4)):
                    tid += 1
                    items[tid] = {'tid': tid, 'doc': doc, 'allow': tid % 3 == 0, 'want': 'inert', 'fseed': None, 'pinned': {},
                                  'seed': seed, 'gen': 'Commented', 'variant': 'inert-every-gap', 'noise': [[kind, pos, text]]}
    for seed, doc in ds:
        for k in range(doccheck.budget(3, 8)):
            fseed = seed * 1000 + k
            noise = [[k, r.randrange(10 ** 6), r.choice(NOISE if k != 'mid' else MID_NOISE)]
                     for k in (r.choice(['own', 'trail', 'mid', 'mid']) for _ in range(r.randint(1, 6)))]
            tid += 1
            items[tid] = {'tid': tid, 'doc': doc, 'allow': tid % 3 == 0, 'want': 'inert', 'fseed': fseed, 'pinned': {},
                          'seed': seed, 'gen': 'Commented', 'variant': 'inert-random', 'noise': noise}
    res = docs.run_items(list(items.values()), rep, 'C14')
    doccheck.judge('C14', rep, res, items, lambda it: True)
    from . import census
    rep.census.require('C14', ['table.comment', 'col.comment', 'idx.comment', 'enum.comment', 'enum.item.comment', 'ref.comment', 'group.comment',
                               'project.comment', 'comment.multiline', 'comment.empty_line', 'doc.tableless'], rep, 'parse-side documents')
    # output side: every renderer emits the comment with its element (-- lines in SQL, // lines in
    # DBML placed so that the DBML output parses back to the same comment)
    from . import sqlcheck, render, c02
    nm = doccheck.budget(120, 2500)
    ms = docs.gen_models(lo + 50000, lo + 50000 + nm - 1, False, True, rep)
    out_items: Dict[int, Dict[str, Any]] = {}
    for seed, dm in ms:
        for route in ('parsed', 'built'):
            tid += 1
            out_items[tid] = {'tid': tid, 'route': route, 'doc': dm['doc'], 'model': dm['model'], 'fseed': None, 'pinned': {},
                              'seed': seed, 'variant': 'output'}
    sres = sqlcheck.run_items(list(out_items.values()), rep, 'C14 sql')
    sqlcheck.judge('C14', ['c14'], rep, sres, out_items, lambda it: True)
    dres = render.run_items(list(out_items.values()), rep, 'C14 dbml')
    c02.judge('C14', ['comments'], rep, dres, out_items, lambda it: True)
    rep.notes['output_side_models'] = len(ms)
    rep.notes['capture_cases'] = sum(1 for i in items.values() if i['variant'] == 'capture')
    rep.notes['inert_cases'] = sum(1 for i in items.values() if i['variant'] != 'capture')
    for tid in [t for t in items if items[t]['variant'] == 'capture'][:1] + [t for t in items if items[t]['variant'] == 'inert-random'][:1]:
        v, rr = res[tid]
        rep.samples.append({'seed': items[tid]['seed'], 'variant': items[tid]['variant'], 'text': rr.get('text', '')[:1500], 'verdict': v})
    return rep.finish()


if __name__ == '__main__':
    doccheck.main_wrapper('C14', main)
