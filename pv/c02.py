"""C02 -- DBML round trip: parse(render(db)) has the content of db, and rendering is a fixpoint.

GenModel.tla generates documents together with their models (Doc!ParseDoc) and checks at design
level, on every model, that the renderer's design (DbmlOut!RenderDecl) composed with the parser
model round-trips everything but the ORDER of references (RoundTripButRefOrder) and is a fixpoint
(FixpointHolds).  The harness obtains the database under test by parsing the printed document and
by building the model through the public classes, renders it, parses the rendering, renders
again; TraceDbml.tla compares the projections clause by clause."""
from __future__ import annotations

from typing import Any, Dict, List

from . import core, docs, doccheck, render




def judge(prop: str, clauses: List[str], rep: core.Report, res, items, nontrivial):
    known = {k['id'] for k in core.known_findings(prop)}
    for tid, (v, r) in res.items():
        it = items[tid]
        rep.evaluations += 1
        bad = [(c, v[c]) for c in clauses if v[c]]
        if v['binding']:
            # the database under test is not the model: not a verdict about the renderer
            rep.notes['binding_mismatch'] = rep.notes.get('binding_mismatch', 0) + 1
            rep.violation({k: it[k] for k in it if k not in ('tid',)}, {'failing_clause': 'binding: ' + v['binding'],
                                                                        'text0': r.get('_text0'), 's0': r.get('s0')})
            continue
        real = []
        for c, msg in bad:
            fids = msg[4:].split('+') if msg.startswith('dev:') else []
            if fids and all(f in known for f in fids):
                for f in fids:
                    rep.known(f)
            else:
                real.append((c, msg))
        if not real:
            rep.traces_ok += 1
            if nontrivial(it):
                rep.mark_nontrivial([it['seed'], it['route'], it.get('fseed'), it.get('variant')])
            continue
        rep.violation({k: it[k] for k in it if k not in ('tid',)},
                      {'failing_clause': '; '.join('%s: %s' % x for x in real), 'rendered': r.get('_text1'),
                       'rendered_again': r.get('_text2'), 's1': r.get('s1') if r.get('s1', {}).get('kind') == 'error' else None})


def main(argv: List[str]) -> int:
    rep = core.Report('C02', 'TLC-generated models (GenModel.tla; design-level RoundTripButRefOrder, FixpointHolds); database parsed '
                             'from the printed document and built through the API, rendered, re-parsed, re-rendered; TLC compares '
                             'projections clause by clause (TraceDbml.tla)')
    rep.rule = ('case = (model seed, route in {parsed, built with str notes, built with Note objects}); distinct by that pair; '
                'non-trivial = the model has >= 1 element with an optional attribute')
    rep.assumptions = ['pv/builder.py builds the model through public constructors and add methods only',
                       'comments are excluded from the content clause (C14 owns them) but take part in the fixpoint clause']
    n = doccheck.budget(300, 5000)
    lo = core.seed() * 100000 + 70001
    items: Dict[int, Dict[str, Any]] = {}
    tid = 0
    for with_props in (False, True):
        ms = docs.gen_models(lo, lo + n // 2 - 1, with_props, False, rep)
        lo += n // 2
        for seed, dm in ms:
            for route in ('parsed', 'built', 'built_notes' if seed % 2 else 'built_shared_notes',
                          ('morphed:refs', 'morphed:names', 'morphed:settings', 'moved', 'built_alias_namesake')[seed % 5]):
                tid += 1
                items[tid] = {'tid': tid, 'route': route, 'doc': dm['doc'], 'model': dm['model'], 'fseed': seed, 'pinned': {},
                              'seed': seed, 'variant': with_props}
    # the exhaustive per-element feature products that C01 parses (GenProduct.tla) are rendered and re-parsed as well
    pm = docs.product_models(rep)
    for pid, dm in pm:
        for route in ('parsed', 'built'):
            tid += 1
            items[tid] = {'tid': tid, 'route': route, 'doc': dm['doc'], 'model': dm['model'], 'fseed': None, 'pinned': {},
                          'seed': pid, 'variant': 'product'}
    rep.notes['product_models'] = len(pm)
    # real documents (pv/corpus.py): the model is the projection of the parse; the round trip is judged from there
    from . import corpus
    for s in corpus.sources(rep):
        tid += 1
        items[tid] = {'tid': tid, 'route': 'text', 'text': s['text'], 'allow': s['allow'], 'doc': [], 'model': None, 'fseed': None, 'pinned': {},
                      'seed': s['origin'], 'variant': 'corpus'}
    res = render.run_items(list(items.values()), rep, 'C02')
    judge('C02', ['content', 'fixpoint'], rep, res, items, lambda it: docs.doc_features(it['doc']) > 0)
    t0 = next(iter(items))
    rep.samples.append({'seed': items[t0]['seed'], 'route': items[t0]['route'], 'rendered': (res[t0][1].get('_text1') or '')[:1500],
                        'verdict': res[t0][0]})
    return rep.finish()


def replay(path: str) -> int:
    import json
    core.setup_env()
    v = json.load(open(path))
    it = dict(v['stimulus'])
    it['tid'] = 1
    rep = core.Report('C02', 'replay')
    res = render.run_items([it], rep, 'replay')
    verdict, r = res[1]
    print('rendered:\n%s' % r.get('_text1'))
    print('verdict: %r' % verdict)
    known = {k['id'] for k in core.known_findings('C02')}
    bad = [m for c, m in verdict.items() if c in ('binding', 'content', 'fixpoint') and m
           and not (m.startswith('dev:') and all(f in known for f in m[4:].split('+')))]
    if bad:
        print('VIOLATION property=C02 replay=%s' % path)
        return 1
    return 0


if __name__ == '__main__':
    import sys
    from . import tlc
    try:
        if '--replay' in sys.argv:
            sys.exit(replay(sys.argv[sys.argv.index('--replay') + 1]))
        sys.exit(main(sys.argv[1:]))
    except (core.Machinery, tlc.TlcFailure) as ex:
        print('MACHINERY-FAILURE C02: %s' % ex, file=sys.stderr)
        sys.exit(2)
