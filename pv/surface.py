"""Concretiser: abstract document (Doc.tla declarations, as JSON) -> DBML text.

Every printable choice that DBML leaves to the author (quoting of identifiers, keyword case,
string style, order and layout of settings lists, where a note or the index block sits in a
body, short or block form of Ref, blank lines, indentation, line ends) is taken from a `Form`.
A Form draws its choices from a seeded RNG, or is pinned to one value per dimension, so that the
same document can be printed in many admissible ways; the specification's expected model does
not depend on the form, which is exactly what C01 states.

Only spellings the grammar as documented admits are produced (DESIGN 4.3).  Non-ASCII characters
travel through TLC as ~uXXXX~ and are decoded here.
"""
from __future__ import annotations

import random
import re
from typing import Any, Dict, List, Optional

_ESC = re.compile(r'~u([0-9a-fA-F]{4,6})~')


def dec(s: str) -> str:
    """~uXXXX~ -> the character"""
    return _ESC.sub(lambda m: chr(int(m.group(1), 16)), s)


def enc(s: str) -> str:
    """every non-ASCII (and '~') character -> ~uXXXX~ ; inverse of dec"""
    out = []
    for ch in s:
        o = ord(ch)
        if o > 126 or ch == '~' or (o < 32 and ch not in '\n\t\r'):
            out.append('~u%04x~' % o)
        else:
            out.append(ch)
    return ''.join(out)


KEYWORDS = {'table', 'enum', 'ref', 'note', 'indexes', 'as', 'pk', 'null', 'project', 'tablegroup',
            'unique', 'increment', 'default', 'primary', 'key', 'not', 'type', 'name', 'update',
            'delete', 'headercolor', 'color', 'true', 'false'}
_BARE = re.compile(r'^[A-Za-z0-9_]+$')

DIMENSIONS = {
    'quote': ['bare', 'quoted'],              # identifiers that may be written bare
    'kwcase': ['title', 'lower', 'upper'],
    'string': ['single', 'double', 'triple'],
    'settings_order': ['canonical', 'reversed', 'shuffled'],
    'settings_layout': ['oneline', 'multiline', 'loose'],
    'note_place': ['setting', 'body_colon', 'body_block'],
    'note_pos': ['first', 'middle', 'last'],   # position of body note / index block among columns
    'idx_pos': ['last', 'first', 'middle'],
    'brace': ['same', 'next'],
    'blank': [0, 1, 2],
    'indent': ['', '  ', '    ', '\t'],
    'eol': ['\n', '\r\n'],
    'final_nl': [True, False],
    'ref_form': ['short', 'long'],
    'single_idx_parens': [False, True],
    'pk_word': ['pk', 'primary key'],
    'legacy_constraints': [False, True],       # `id int pk unique` instead of settings
    'null_word': [False, True],                # write an explicit `null` for a nullable column
    'note_pad': ['tight', 'padded', 'tabbed'],
    'empty_note': ['omit', 'explicit'],          # an element without a note: nothing, or a note whose text is empty
           # multi-line text: blank lines around, extra indentation
    'space': [' ', '  ', '\t'],
    'comment_style': ['line', 'block'],
    'comment_place': ['above', 'trailing', 'both'],                # ('both_empty' is used by C14 only, see _attach)                # separator between tokens on a line
}


class Form:
    def __init__(self, seed: Optional[int] = None, pinned: Optional[Dict[str, Any]] = None):
        self.r = random.Random(seed) if seed is not None else None
        self.pinned = dict(pinned or {})

    def pick(self, dim: str):
        if dim in self.pinned:
            return self.pinned[dim]
        vals = DIMENSIONS[dim]
        if self.r is None:
            return vals[0]
        return self.r.choice(vals)

    def shuffle(self, items: List[Any]) -> List[Any]:
        mode = self.pick('settings_order')
        orig = list(items)
        items = list(items)
        if mode == 'reversed':
            items.reverse()
        elif mode == 'shuffled':
            (self.r or random.Random(0)).shuffle(items)
        # inline references and properties keep their relative order: it is declared content
        for tag in ('ref:', '\x00prop'):
            slots = [i for i, x in enumerate(items) if x.startswith(tag)]
            keep = [x for x in orig if x.startswith(tag)]
            for i, x in zip(slots, keep):
                items[i] = x
        return [x[5:] if x.startswith('\x00prop') else x for x in items]


class Printer:
    def __init__(self, form: Form):
        self.f = form
        self.eol = form.pick('eol')
        self.ind = form.pick('indent')

    # ---- lexemes -----------------------------------------------------------------------
    def ident(self, name: str) -> str:
        name = dec(name)
        if _BARE.match(name) and name.lower() not in KEYWORDS and self.f.pick('quote') == 'bare':
            return name
        assert '"' not in name and '\n' not in name, name
        return '"%s"' % name

    def kw(self, word: str) -> str:
        """a keyword whose case the grammar ignores"""
        c = self.f.pick('kwcase')
        if c == 'lower':
            return word.lower()
        if c == 'upper':
            return word.upper()
        return word

    def string(self, text: str, multiline_ok: bool = True, pad: bool = False) -> str:
        text = dec(text)
        style = self.f.pick('string')
        if '\n' in text:
            style = 'triple'
            assert multiline_ok, text
        if style == 'triple' and not multiline_ok:
            style = 'single'

        def esc(t: str, q: str) -> str:
            # a raw tab inside a literal is expanded by the parser's tab handling: authors write \t
            return t.replace('\\', '\\\\').replace(q, '\\' + q).replace('\t', '\\t')
        if style == 'single':
            return "'%s'" % esc(text, "'")
        if style == 'double':
            return '"%s"' % esc(text, '"')
        body = esc(text, "'")
        if pad and self.f.pick('note_pad') in ('padded', 'tabbed') and text.strip():
            # (tabbed: an author who indents with tab characters, also inside a multi-line text)
            extra, last = ('      ', '   ') if self.f.pick('note_pad') == 'padded' else ('\t\t', '\t')
            # (a blank-only line is padded like the others -- it would otherwise lose its blanks to the normalisation; an empty line stays empty)
            body = '\n'.join(extra + ln if ln else ln for ln in body.split('\n'))
            body = '\n' + body + '\n' + last
        return "'''%s'''" % body

    def sp(self) -> str:
        return self.f.pick('space')

    def settings(self, items: List[str], depth: int) -> str:
        if not items:
            return ''
        items = self.f.shuffle(items)
        assert not any(i.startswith('\x00') for i in items)
        layout = self.f.pick('settings_layout')
        # \x03 marks a place INSIDE a line where the grammar admits a comment (C14 inertness, noise kind 'mid'): every
        # settings grammar wraps each setting in optional comments/newlines
        M = '\x03'
        if layout == 'oneline':
            return '[' + M + (M + ', ' + M).join(items) + M + ']'
        pad = self.ind * (depth + 1)
        if layout == 'multiline':
            return '[' + self.eol + (M + ',' + self.eol).join(pad + i for i in items) + self.eol + self.ind * depth + ']'
        return '[ ' + M + (' ' + M + ',' + self.eol + pad).join(items) + ' ' + M + ']'

    # ---- comments (C14) ---------------------------------------------------------------
    def comment_above(self, text: str, depth: int) -> List[str]:
        text = dec(text)
        pad = self.ind * depth
        parts = text.split('\n')
        if self.f.pick('comment_style') == 'line' or '*/' in text:
            return [pad + '// ' + ln for ln in parts]
        if len(parts) == 1:
            return [pad + '/* ' + text + ' */']
        # \x02 marks the continuation lines of a block comment (no comment may be inserted before them)
        return [pad + '/* ' + parts[0]] + ['\x02' + pad + '   ' + ln for ln in parts[1:-1]] + ['\x02' + pad + '   ' + parts[-1] + ' */']

    def comment_trailing(self, text: str) -> str:
        text = dec(text)
        if self.f.pick('comment_style') == 'line' or '*/' in text:
            return ' // ' + text
        return ' /* ' + text + ' */'

    def attach(self, lines: List[str], comment: str, depth: int, can_trail: bool, can_above: bool = True,
               trail_line: int = -1) -> List[str]:
        """write the comment an element is declared with: directly above it, or trailing its line.
        \x04 marks the top-most line of an element that CAPTURES a comment block written above it"""
        res = self._attach(lines, comment, depth, can_trail, can_above, trail_line)
        if can_above and res:
            k = len(res) - len(lines) + 1          # the comment lines written above, and the element's own first line
            res = ['\x04' + ln for ln in res[:k]] + list(res[k:])
        return res

    def _attach(self, lines: List[str], comment: str, depth: int, can_trail: bool, can_above: bool = True,
                trail_line: int = -1) -> List[str]:
        place = self.f.pick('comment_place')
        if not comment:
            if place == 'both_empty' and can_trail and can_above:
                # an element WITHOUT a comment: an EMPTY comment trails its line and a comment stands above -- the trailing one
                # wins by being there, not by having text
                lines = list(lines)
                lines[trail_line] += self.comment_trailing('').rstrip(' ') + '\x01'
                return self.comment_above(enc('superseded: written above'), depth) + lines
            return lines
        one = '\n' not in dec(comment)
        if place == 'both_empty':
            place = 'both'
        if can_trail and one and (not can_above or place in ('trailing', 'both')):
            lines = list(lines)
            lines[trail_line] += self.comment_trailing(comment) + '\x01'      # \x01: line already ends in a comment
            if place == 'both' and can_above:
                # a different comment directly above as well: the trailing one wins
                return self.comment_above(enc('superseded: written above'), depth) + lines
            return lines
        assert can_above, 'comment %r cannot be written' % comment
        return self.comment_above(comment, depth) + lines

    def note_setting(self, text: str) -> str:
        return self.kw('Note') + ':' + self.sp() + '\x03' + self.string(text, pad=True)

    def body_note(self, text: str, depth: int) -> List[str]:
        pad = self.ind * depth
        if self.f.pick('note_place') == 'body_block':
            brace = self.f.pick('brace')
            head = pad + self.kw('Note') + (' \x03{' if brace == 'same' else '')
            lines = [head] if brace == 'same' else [head, pad + '{']
            lines.append(self.ind * (depth + 1) + self.string(text, pad=True))
            lines.append(pad + '}')
            return lines
        return [pad + self.note_setting(text)]

    # ---- addresses ---------------------------------------------------------------------
    def table_addr(self, schema: str, table: str) -> str:
        if schema:
            return self.ident(schema) + '.' + self.ident(table)
        return self.ident(table)

    def col_addr(self, a: Dict[str, Any]) -> str:
        cols = a['cols']
        if len(cols) == 1:
            c = self.ident(cols[0])
        else:
            sep = ', ' if self.f.pick('space') == ' ' else ' ,  '
            c = '(' + sep.join(self.ident(x) for x in cols) + ')'
        return self.table_addr(a['schema'], a['table']) + '.' + c

    # ---- elements ----------------------------------------------------------------------
    def type_text(self, ty: Dict[str, str]) -> str:
        t = ''
        if ty['schema']:
            t = self.ident(ty['schema']) + '.'
        return t + self.ident(ty['name']) + ty['suffix']

    def default_text(self, d: Dict[str, str]) -> str:
        k, v = d['k'], d['v']
        if k in ('int', 'float'):
            return v
        if k == 'bool':
            return self.kw(v)
        if k == 'null':
            return self.kw('null')
        if k == 'str':
            return self.string(v, multiline_ok=True)
        if k == 'expr':
            return '`%s`' % dec(v)
        raise ValueError(k)

    def column(self, c: Dict[str, Any], depth: int, comment_lines: Optional[List[str]] = None) -> List[str]:
        pad = self.ind * depth
        parts = [self.ident(c['name']), self.type_text(c['type'])]
        items: List[str] = []
        legacy = self.f.pick('legacy_constraints')
        pk, unique = c['pk'], c['unique']
        if legacy:
            if pk:
                parts.append(self.kw('pk'))
                pk = False
            if unique:
                parts.append(self.kw('unique'))
                unique = False
        for r in c['refs']:
            items.append('ref: %s %s' % (r['type'], self.col_addr(r['addr'])))
        if pk:
            items.append(self.kw(self.f.pick('pk_word')))
        if c['autoinc']:
            items.append(self.kw('increment'))
        if c['default']['k'] != 'none':
            items.append(self.kw('default') + ':' + self.sp() + '\x03' + self.default_text(c['default']))
        if unique:
            items.append(self.kw('unique'))
        if c['notnull']:
            items.append(self.kw('not null'))
        elif self.f.pick('null_word'):
            items.append(self.kw('null'))
        if c['note']:
            items.append(self.note_setting(c['note']))
        elif self.f.pick('empty_note') == 'explicit' and items:
            items.append(self.kw('note') + ':' + self.sp() + "''")
        for k, v in c['props']:
            items.append('\x00prop' + self.ident(k) + ':' + self.sp() + self.string(v))
        line = pad + self.sp().join(parts)
        st = self.settings(items, depth)
        if st:
            line += ' \x03' + st
        return self.attach([line], c.get('comment', ''), depth, can_trail=True, can_above=False)

    def index(self, x: Dict[str, Any], depth: int) -> List[str]:
        pad = self.ind * depth
        subs = [self.ident(s['v']) if s['k'] == 'col' else '`%s`' % dec(s['v']) for s in x['subj']]
        if len(subs) > 1 or self.f.pick('single_idx_parens'):
            head = '(' + ', '.join(subs) + ')'
        else:
            head = subs[0]
        items = []
        if x['name']:
            items.append(self.kw('name') + ':' + self.sp() + self.string(x['name'], multiline_ok=False))
        if x['pk']:
            items.append(self.kw('pk'))
        if x['unique']:
            items.append(self.kw('unique'))
        if x['type']:
            items.append(self.kw('type') + ':' + self.sp() + self.kw(x['type']))
        if x['note']:
            items.append(self.note_setting(x['note']))
        st = self.settings(items, depth)
        return self.attach([pad + head + (' \x03' + st if st else '')], x.get('comment', ''), depth, can_trail=True)

    def open_brace(self, head: str, depth: int) -> List[str]:
        if self.f.pick('brace') == 'same':
            return [head + ' \x03{']
        return [head, self.ind * depth + '{']

    def table(self, t: Dict[str, Any]) -> List[str]:
        head = self.kw('Table') + self.sp() + self.table_addr(t['schema'], t['name'])
        if t['alias']:
            head += ' as ' + self.ident(t['alias'])
        sett = []
        note_in_settings = bool(t['note']) and self.f.pick('note_place') == 'setting'
        if t['color']:
            sett.append(self.kw('headercolor') + ':' + self.sp() + t['color'])
        if note_in_settings:
            sett.append(self.note_setting(t['note']))
        st = self.settings(sett, 0)
        if st:
            head += ' ' + st
        lines = self.open_brace(head, 0)
        body: List[List[str]] = [self.column(c, 1) for c in t['cols']]
        extras: List[List[str]] = []
        if t['props']:      # one block: the order of properties is declared content
            extras.append([self.ind + self.ident(k) + ':' + self.sp() + self.string(v) for k, v in t['props']])
        if t['note'] and not note_in_settings:
            pos = self.f.pick('note_pos')
            blk = self.body_note(t['note'], 1)
            self._place(body, blk, pos)
        elif not t['note'] and self.f.pick('empty_note') == 'explicit':
            self._place(body, [self.ind + self.kw('Note') + ':' + self.sp() + "''"], self.f.pick('note_pos'))
        if t['idxs']:
            ib = self.open_brace(self.ind + self.kw('indexes'), 1)
            for x in t['idxs']:
                ib += self.index(x, 2)
            ib.append(self.ind + '}')
            self._place(body, ib, self.f.pick('idx_pos'))
        for e in extras:
            self._place(body, e, self.f.pick('note_pos'))
        for b in body:
            lines += b
        lines.append('}')
        return self.attach(lines, t.get('comment', ''), 0, can_trail=False)

    @staticmethod
    def _place(body: List[List[str]], blk: List[str], pos: str) -> None:
        if pos == 'first':
            body.insert(0, blk)
        elif pos == 'middle':
            body.insert(len(body) // 2, blk)
        else:
            body.append(blk)

    def enum(self, e: Dict[str, Any]) -> List[str]:
        name = self.table_addr(e['schema'], e['name'])
        lines = self.open_brace(self.kw('Enum') + self.sp() + name, 0)
        for it in e['items']:
            ln = self.ind + self.ident(it['name'])
            if it['note']:
                ln += ' \x03' + self.settings([self.note_setting(it['note'])], 1)
            lines += self.attach([ln], it.get('comment', ''), 1, can_trail=True)
        lines.append('}')
        return self.attach(lines, e.get('comment', ''), 0, can_trail=False)

    def ref(self, r: Dict[str, Any]) -> List[str]:
        body = self.col_addr(r['left']) + self.sp() + r['type'] + self.sp() + self.col_addr(r['right'])
        items = []
        if r['onupdate']:
            items.append(self.kw('update') + ':' + self.sp() + self.kw(r['onupdate']))
        if r['ondelete']:
            items.append(self.kw('delete') + ':' + self.sp() + self.kw(r['ondelete']))
        head = self.kw('Ref')
        if r['name']:
            head += ' ' + self.ident(r['name'])
        if self.f.pick('ref_form') == 'short':
            st = self.settings(items, 0)
            return self.attach([head + ': ' + body + (' ' + st if st else '')], r.get('comment', ''), 0, can_trail=True)
        st = self.settings(items, 1)
        lines = self.open_brace(head, 0)
        lines.append(self.ind + body + (' ' + st if st else ''))
        lines.append('}')
        return self.attach(lines, r.get('comment', ''), 0, can_trail=True, trail_line=-2)

    def group(self, g: Dict[str, Any]) -> List[str]:
        head = self.kw('TableGroup') + self.sp() + self.ident(g['name'])
        sett = []
        note_in_settings = bool(g['note']) and self.f.pick('note_place') == 'setting'
        if g['color']:
            sett.append(self.kw('color') + ':' + self.sp() + g['color'])
        if note_in_settings:
            sett.append(self.note_setting(g['note']))
        st = self.settings(sett, 0)
        if st:
            head += ' ' + st
        lines = self.open_brace(head, 0)
        body = [[self.ind + self.table_addr(i['schema'], i['table'])] for i in g['items']]
        if g['note'] and not note_in_settings:
            self._place(body, self.body_note(g['note'], 1), self.f.pick('note_pos'))
        elif not g['note'] and self.f.pick('empty_note') == 'explicit':
            self._place(body, [self.ind + self.kw('Note') + ':' + self.sp() + "''"], self.f.pick('note_pos'))
        for b in body:
            lines += b
        lines.append('}')
        return self.attach(lines, g.get('comment', ''), 0, can_trail=False)

    def sticky(self, n: Dict[str, Any]) -> List[str]:
        lines = self.open_brace(self.kw('Note') + self.sp() + self.ident(n['name']), 0)
        lines.append(self.ind + self.string(n['text'], pad=True))
        lines.append('}')
        return lines

    def project(self, p: Dict[str, Any]) -> List[str]:
        lines = self.open_brace(self.kw('Project') + self.sp() + self.ident(p['name']), 0)
        body = [[self.ind + self.ident(k) + ':' + self.sp() + self.string(v)] for k, v in p['items']]
        if p['note']:
            self._place(body, self.body_note(p['note'], 1), self.f.pick('note_pos'))
        for b in body:
            lines += b
        lines.append('}')
        return self.attach(lines, p.get('comment', ''), 0, can_trail=False)

    def element(self, d: Dict[str, Any]) -> List[str]:
        return {'table': self.table, 'enum': self.enum, 'ref': self.ref, 'group': self.group,
                'sticky': self.sticky, 'project': self.project, 'raw': lambda x: [x['text']]}[d['d']](d)

    def lines(self, doc: List[Dict[str, Any]]) -> List[str]:
        out: List[str] = []
        for i, d in enumerate(doc):
            if i:
                out += [''] * self.f.pick('blank')
            out += self.element(d)
        return out

    def document(self, doc: List[Dict[str, Any]], noise: Optional[List[Any]] = None) -> str:
        out = self.lines(doc)
        # exact = every inserted comment stands where NO element captures it (not above a capturing element, not on an element's
        # line): such comments must leave the whole model, comment attributes included, exactly as it is
        self.exact = bool(noise)
        for kind, pos, text in sorted(noise or [], key=lambda n: -n[1]):
            # extra comments (C14 inertness): on a line of their own before line `pos`, or trailing line `pos`
            pos = pos % (len(out) + 1)
            if kind != 'own':
                self.exact = False
            if kind == 'own':
                if pos < len(out) and out[pos].lstrip('\x04').startswith('\x02'):
                    continue
                j = pos
                while j < len(out) and '\x04' not in out[j] and (out[j].strip('\x01\x02\x03 \t') == '' or out[j].lstrip('\x04\x02 \t').startswith(('//', '/*'))
                                                                or out[j].lstrip('\x04').startswith('\x02')):
                    j += 1
                if j < len(out) and '\x04' in out[j]:
                    self.exact = False
                parts = text.split('\n')
                cont = '\x02' if text.startswith('/*') else ''
                out[pos:pos] = [parts[0]] + [cont + ln for ln in parts[1:]]
            elif kind == 'mid':
                # a block comment at one of the marked places inside line `pos` (the k-th mark, k from the text's length)
                if pos < len(out) and '\x03' in out[pos] and text.startswith('/*') and '\n' not in text:
                    marks = [i for i, ch in enumerate(out[pos]) if ch == '\x03']
                    k = marks[(len(text) + pos) % len(marks)]
                    out[pos] = out[pos][:k] + ' ' + text + ' ' + out[pos][k + 1:]      # (every marked place takes ONE comment: some slots admit no more)
            elif pos < len(out) and out[pos].strip() and not out[pos].endswith('\x01') and not out[pos].lstrip('\x04').startswith('\x02') \
                    and not out[pos].lstrip('\x04\x02').lstrip().startswith(('//', '/*')) and not out[pos].endswith('*/'):
                out[pos] += ' ' + (text if '\n' not in text else text.split('\n')[0] + (' */' if text.startswith('/*') else '')) + '\x01'
        out = [ln.replace('\x01', '').replace('\x02', '').replace('\x03', '').replace('\x04', '') for ln in out]
        text = self.eol.join(out)
        if self.f.pick('final_nl'):
            text += self.eol
        return text


def print_doc(doc: List[Dict[str, Any]], seed: Optional[int] = None, pinned: Optional[Dict[str, Any]] = None,
              noise: Optional[List[Any]] = None) -> str:
    return Printer(Form(seed, pinned)).document(doc, noise)


def print_doc_ex(doc, seed=None, pinned=None, noise=None):
    """-> (text, exact): exact = the inserted comments all stand where no element captures them"""
    p = Printer(Form(seed, pinned))
    return p.document(doc, noise), bool(getattr(p, 'exact', False))
