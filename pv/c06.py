"""C06 -- rule-breaking documents are rejected with the error belonging to the rule.

GenFault.tla injects exactly one rule violation (16 kinds) into a well-formed generated document,
at a seed-dependent position and in a seed-dependent spelling; TLC checks at design level that the
operational parser model answers with the rule's error class (Ruled).  Every fault document is
printed in several surface forms and parsed by /repo; TLC compares the observed outcome (an
exception at all, and its class) with Doc!ParseDoc."""
from __future__ import annotations

from typing import List

from . import core, docs, doccheck


def main(argv: List[str]) -> int:
    rep = core.Report('C06', 'TLC-generated single-fault documents (GenFault.tla, 16 fault kinds x position x spelling) parsed by '
                             '/repo; outcome class compared by TLC with Doc!ParseDoc; Ruled checked at design level')
    rep.rule = ('case = (base document seed, fault kind, surface form); distinct by that triple; every case is '
                'non-trivial (exactly one injected violation)')
    rep.assumptions = ['exception classes are compared, never messages', 'pv/surface.py prints only admissible spellings']
    nseeds = doccheck.budget(90, 1500)
    nrand = doccheck.budget(3, 8)
    lo = core.seed() * 100000 + 20001
    fs = docs.gen_faults(lo, lo + nseeds - 1, rep)
    items = {}
    tid = 0
    kinds = {}
    for fid, f in fs:
        kinds[f['kind']] = kinds.get(f['kind'], 0) + 1
        for fseed, pinned in docs.form_plan(nrand, False, fid):
            tid += 1
            # (the grammar differs with arbitrary properties enabled: every rule must hold under both option values)
            items[tid] = {'tid': tid, 'doc': f['doc'], 'allow': tid % 2 == 0, 'want': 'error', 'fseed': fseed, 'pinned': pinned,
                          'seed': fid, 'gen': 'FaultDoc', 'variant': f['kind']}
    res = docs.run_items(list(items.values()), rep, 'C06')
    doccheck.judge('C06', rep, res, items, lambda it: True)
    rep.notes['fault_documents'] = len(fs)
    rep.notes['per_fault_kind'] = kinds
    want = ['DupTable', 'DupAlias', 'AliasIsKey', 'DupEnum', 'DupGroup', 'DupGroupItem', 'DupRef', 'DupRefInline', 'DupInlineTwice',
            'EmptyTable', 'RefNoTableAtAll', 'GroupNoTableAtAll', 'RefNoTable', 'RefNoColumn', 'IdxNoColumn', 'GroupNoTable']
    if sorted(kinds) != sorted(want):
        raise core.Machinery('C06: fault kinds judged %s, expected %s' % (sorted(kinds), sorted(want)))
    for tid in list(items)[:3]:
        v, r = res[tid]
        rep.samples.append({'id': items[tid]['seed'], 'fault': items[tid]['variant'], 'text': r.get('text', '')[:1200],
                            'observed': r.get('result'), 'verdict': v})
    return rep.finish()


if __name__ == '__main__':
    doccheck.main_wrapper('C06', main)
