"""Real documents: every DBML text the repository's own test-suite parses successfully (recorded by the pytest plugin
pv/container_trace.py) and every *.dbml file of the repository that parses.  For these there is no abstract document to
compare the parse with; the MODEL is the projection of the parsed database, and everything downstream of the parse is
judged against the specification with it: links (C05), the DBML round trip (C02), the SQL catalog (C03, C04, C18)."""
from __future__ import annotations

import glob
import json
import os
import subprocess
import sys
from typing import Any, Dict, List

from . import core, tlc


def _parses(text: str, allow: bool) -> bool:
    core.setup_env()
    from pydbml import PyDBML
    try:
        PyDBML(text, allow_properties=allow)
        return True
    except Exception:
        return False


def sources(rep: core.Report) -> List[Dict[str, Any]]:
    repo = os.environ.get('VERIF_REPO', '/repo')
    work = tlc.new_dir('corpus')
    out = os.path.join(work, 'events.ndjson')
    env = dict(os.environ, PV_TRACE_OUT=out, PYTHONPATH='%s:%s' % (core.VERIF, repo), PYTHONDONTWRITEBYTECODE='1')
    subprocess.run([sys.executable, '-B', '-m', 'pytest', '-q', '-p', 'pv.container_trace', '-p', 'no:cacheprovider', '--timeout=900'],
                   cwd=repo, env=env, capture_output=True, text=True, timeout=1800)
    res: Dict[str, Dict[str, Any]] = {}
    if os.path.exists(out + '.sources'):
        for s in json.load(open(out + '.sources')):
            if _parses(s['text'], s['allow']):
                res.setdefault(json.dumps([s['text'], s['allow']]), {'text': s['text'], 'allow': s['allow'], 'origin': 'test-suite: ' + s['where']})
    nsuite = len(res)
    for fn in sorted(glob.glob(os.path.join(repo, '**', '*.dbml'), recursive=True)):
        try:
            t = open(fn, encoding='utf8').read()
        except Exception:
            continue
        for allow in (False, True):
            if _parses(t, allow):
                res.setdefault(json.dumps([t, allow]), {'text': t, 'allow': allow, 'origin': 'file: ' + os.path.relpath(fn, repo)})
    rep.notes['corpus'] = {'distinct_sources_from_the_test_suite': nsuite, 'with_repository_files': len(res)}
    if nsuite < 20:
        raise core.Machinery('corpus: only %d sources recorded from the test-suite' % nsuite)
    return list(res.values())
