"""C05 -- a parsed database is one consistently linked object graph.

Same stimuli as C01; the projection resolves every reference endpoint, index subject, enum-typed
column and group item by object IDENTITY to a position in the database's own lists and records
all back-pointers and the results of db[i], db[name], db[alias], iteration, Table.get_refs,
Column.get_refs and the SQL key-holder query.  TLC compares with Doc!ParseDoc (positions) and the
query operators GetRefs / ColGetRefs / SqlRefs of Doc.tla; Linked and OneKeyHolder are checked at
design level on every generated document."""
from __future__ import annotations

from typing import List

from . import core, docs, doccheck


def has_link(doc) -> bool:
    for d in doc:
        if d['d'] in ('ref',) or (d['d'] == 'group' and d['items']):
            return True
        if d['d'] == 'table' and (d['idxs'] or any(c['refs'] or c['type']['name'] in ('status', 'order status', 'enum', '~u00e9~tat') for c in d['cols'])):
            return True
    return False


def main(argv: List[str]) -> int:
    rep = core.Report('C05', 'TLC-generated documents parsed by /repo; identity-resolved projection of links, back-pointers '
                             'and query results compared by TLC with Doc!ParseDoc / GetRefs / SqlRefs (TraceDoc.tla)')
    rep.rule = ('case = (document seed, surface form incl. addressing mode chosen by the generator); distinct by '
                '(seed, form); non-trivial = the document has >= 1 link (reference, index, enum-typed column, group item)')
    rep.assumptions = ['identity is observed with `is` on the objects reachable from the returned Database',
                       'the concretiser pv/surface.py prints only spellings DBML admits (DESIGN 4.3)']
    ndocs = doccheck.budget(400, 6000)
    nrand = doccheck.budget(2, 6)
    lo = core.seed() * 100000 + 50001
    ds = docs.gen_docs(lo, lo + ndocs - 1, False, rep)
    items = {}
    tid = 0
    for seed, doc in ds:
        for fseed, pinned in docs.form_plan(nrand, False, seed):
            tid += 1
            items[tid] = {'tid': tid, 'doc': doc, 'allow': tid % 3 == 0, 'want': 'links', 'fseed': fseed, 'pinned': pinned,
                          'seed': seed, 'gen': 'RandDoc'}
    # the exhaustive per-element products of GenProduct.tla (every kind x addressing mode x arity of reference, every enum
    # binding, groups): links of each
    nprod = 0
    for fam in ('ref', 'enum', 'misc', 'index', 'column'):
        ps, _ = docs.gen_products(fam, doccheck.budget(150, 10 ** 9 if fam != 'column' else 4000), rep)
        nprod += len(ps)
        for pid, doc in ps:
            tid += 1
            items[tid] = {'tid': tid, 'doc': doc, 'allow': tid % 3 == 0, 'want': 'links', 'fseed': None, 'pinned': {}, 'seed': pid, 'gen': 'GenProduct'}
    rep.notes['product_documents'] = nprod
    # real documents (pv/corpus.py): the links each parsed database shows must be consistent with the content it shows
    from . import corpus
    for s in corpus.sources(rep):
        tid += 1
        items[tid] = {'tid': tid, 'doc': [], 'text': s['text'], 'allow': s['allow'], 'want': 'selflinks', 'fseed': None, 'pinned': {},
                      'seed': s['origin'], 'gen': 'corpus'}
    res = docs.run_items(list(items.values()), rep, 'C05')
    doccheck.judge('C05', rep, res, items, lambda it: has_link(it['doc']))
    from . import census
    rep.census.require('C05', census.BASE + ['group.note.equal_twins', 'col.two_inline_refs', 'table.case_variant_siblings'], rep)
    rep.notes['documents'] = len(ds)
    for tid in list(items)[:2]:
        v, r = res[tid]
        rep.samples.append({'seed': items[tid]['seed'], 'text': r.get('text', '')[:1200], 'links': r.get('links'), 'verdict': v})
    return rep.finish()


if __name__ == '__main__':
    doccheck.main_wrapper('C05', main)
