"""./check selftest -- demonstrates that the specification is BOUND to the code: a recorded trace that TLC accepts is
corrupted in one field (or two statements are swapped, or an observation is dropped) and TLC must reject it, naming the clause.
Exit 0 iff every accepted original is accepted and every corruption is rejected."""
from __future__ import annotations

import copy
import os
import json
import sys

from . import core, tlc, docs
from .surface import print_doc


def main() -> int:
    core.setup_env()
    rep = core.Report('selftest', 'replay')
    ok = True

    def expect(name, verdict, rejected: bool):
        nonlocal ok
        got = bool(verdict) if not isinstance(verdict, (list, tuple)) else any(verdict)
        good = got == rejected
        ok = ok and good
        print('%-58s %s  (%s)' % (name, 'ok' if good else 'SELFTEST FAILED', verdict if verdict else 'accepted'))

    # --- TraceDoc: model and links --------------------------------------------------------------------------------
    ds = docs.gen_docs(777001, 777030, False, rep)
    doc = next(d for _, d in ds if any(x['d'] == 'ref' for x in d) and any(x['d'] == 'table' and len(x['cols']) > 1 for x in d))
    it = {'tid': 1, 'doc': doc, 'allow': False, 'want': 'links', 'fseed': None, 'pinned': {}}
    rec = docs._exec_chunk([it])[0]
    rec.pop('_text')

    def vdoc(r):
        r = dict(r)
        r['tid'] = 1
        return core.validate('TraceDoc', 'TraceDoc.cfg', [r])[0][1]
    expect('TraceDoc: recorded parse', vdoc(rec), False)
    c = copy.deepcopy(rec)
    c['result']['tables'][0]['cols'][0]['pk'] = not c['result']['tables'][0]['cols'][0]['pk']
    expect('TraceDoc: one flag flipped in the projection', vdoc(c), True)
    c = copy.deepcopy(rec)
    c['result']['refs'][0]['t2'] = c['result']['refs'][0]['t2'] % len(c['result']['tables']) + 1 if len(c['result']['tables']) > 1 else 0
    expect('TraceDoc: a reference endpoint bound to another table', vdoc(c), True)
    c = copy.deepcopy(rec)
    c['links']['cown'][0][0] = False
    expect('TraceDoc: one column.table back-pointer missing', vdoc(c), True)
    c = copy.deepcopy(rec)
    c['result']['tables'][0]['cols'].pop()
    expect('TraceDoc: a declared column dropped', vdoc(c), True)

    # --- TraceSql: statements swapped / removed --------------------------------------------------------------------
    from . import sqlcheck
    ms = docs.gen_models(777001, 777060, False, False, rep)
    dm = next(m for _, m in ms if any(t['note'] for t in m['model']['tables']) and m['model']['refs']
              and all(r['type'] != '<>' for r in m['model']['refs']))
    srec = sqlcheck._exec_chunk([{'tid': 1, 'route': 'built', 'doc': dm['doc'], 'model': dm['model'], 'fseed': None, 'pinned': {}, 'seed': 0}])[0]
    srec.pop('_sql', None)

    def vsql(r):
        return core.validate('TraceSql', 'TraceSql.cfg', [r])[0][1]
    expect('TraceSql: recorded script', [x for x in vsql(srec) if x and not x.startswith('dev:')], False)
    c = copy.deepcopy(srec)
    k = next(i for i, s in enumerate(c['st']) if s['k'] == 'comment')
    t = next(i for i, s in enumerate(c['st']) if s['k'] == 'table' and s['q'] == c['st'][k]['target'][:len(s['q'])])
    c['st'][k], c['st'][t] = c['st'][t], c['st'][k]
    expect('TraceSql: COMMENT ON moved before its CREATE TABLE', [x for x in vsql(c) if x and not x.startswith('dev:')], True)
    c = copy.deepcopy(srec)
    c['st'] = [s for s in c['st'] if s['k'] != 'alter'][:] if any(s['k'] == 'alter' for s in c['st']) else c['st'][:-1]
    expect('TraceSql: a statement removed from the script', [x for x in vsql(c) if x and not x.startswith('dev:')], True)

    # --- TraceContainer: partial application ------------------------------------------------------------------------
    from . import c09, container_exec as ce
    uni, paths, _ = c09.generate('others', rep)
    calls = [uni['ops'][k - 1] for k in paths[len(paths) // 2]]
    triples = ce.run_history(uni, calls, log_from=0)
    recs = [{'tid': i + 1, 'pre': json.loads(a), 'call': json.loads(b), 'post': json.loads(cc)} for i, (a, b, cc) in enumerate(triples)]

    def vc(rs):
        v = core.validate('TraceC09_others', 'TraceC09_others.cfg', rs)[0]
        return [x for x in v.values() if x not in ('', 'out-of-domain')]
    expect('TraceContainer: recorded history', vc(recs), False)
    c = copy.deepcopy(recs)
    last = next(r for r in reversed(c) if r['post']['out'] == 'ok' and r['call']['op'] in ('add', 'add_x'))
    for k in range(len(last['post']['own'])):
        if last['post']['own'][k][0] == last['call']['o']:
            last['post']['own'][k][1] = False
    expect('TraceContainer: back-pointer not set by a successful add', vc(c), True)

    # --- TraceLexis ---------------------------------------------------------------------------------------------------
    from . import c13
    item = {'tid': 1, 't': ['a', "'", 'n'], 'site': 'table_note', 'route': 'authored', 'style': 'single', 'lit': ["'", 'a', '\\', "'", 'n', "'"]}
    lrec = c13._exec_chunk([item])[0]
    for k in list(lrec):
        if k.startswith('_'):
            lrec.pop(k)

    def vl(r):
        return core.validate('TraceLexis', 'TraceLexis.cfg', [r])[0][1]
    expect('TraceLexis: recorded text', vl(lrec), False)
    c = copy.deepcopy(lrec)
    c['stored'][1] = '"'
    expect('TraceLexis: one stored character changed', vl(c), True)
    # --- TraceContainerInv: calls recorded at the container methods (run-time recorder) -----------------------------------
    from . import container_trace as ct
    core.setup_env()
    from pydbml import PyDBML
    ct.install()
    ct.reset()
    PyDBML("Table a {\n  id int [pk]\n}\nTable b {\n  a_id int [ref: > a.id]\n}\nEnum e {\n  x\n}\n")
    evs = [{'tid': i + 1, 'call': e['call'], 'outcome': e['outcome'], 'pre': e['pre'], 'post': e['post']} for i, e in enumerate(ct.EVENTS)]

    def vi(rs):
        return [x for x in core.validate('TraceContainerInv', 'TraceContainerInv.cfg', rs)[0].values() if x]
    expect('TraceContainerInv: recorded parser schedule (%d calls)' % len(evs), vi(evs), False)
    c = copy.deepcopy(evs)
    add = next(e for e in c if e['call'] == 'Database.add' and len(e['post']['tables']) > len(e['pre']['tables']))
    add['post']['tdict'] = add['pre']['tdict']                  # the table is listed but cannot be looked up
    expect('TraceContainerInv: table listed but missing from the lookup dictionary', vi(c), True)
    c = copy.deepcopy(evs)
    add = next(e for e in c if e['call'] == 'Database.add' and len(e['post']['tables']) > len(e['pre']['tables']))
    add['outcome'] = 'DatabaseValidationError'                  # a call that changed the container is reported as refused
    expect('TraceContainerInv: a refused call that changed the container', vi(c), True)
    # --- pv/run.py: what escapes from a check is classified, never left as a bare traceback ----------------------------------
    import subprocess
    import tempfile
    with tempfile.TemporaryDirectory(prefix='pv_selftest_') as td:
        env = dict(os.environ, VERIF_OUT=td)
        for mod, want, what in (('_escape_repo', 1, 'exception from the package under test -> VIOLATION, exit 1'),
                                ('_escape_harness', 2, 'exception from the machinery -> exit 2')):
            p = subprocess.run([sys.executable, '-B', '-m', 'pv.run', mod], cwd=core.VERIF, env=env, stdout=subprocess.PIPE,
                               stderr=subprocess.PIPE, text=True)
            good = p.returncode == want and (('VIOLATION property=' in p.stdout) == (want == 1))
            ok = ok and good
            print('%-58s %s  (exit %d)' % ('pv/run.py: ' + what, 'ok' if good else 'SELFTEST FAILED', p.returncode))
    print('selftest %s' % ('passed' if ok else 'FAILED'))
    return 0 if ok else 1


if __name__ == '__main__':
    try:
        sys.exit(main())
    except (core.Machinery, tlc.TlcFailure) as ex:
        print('MACHINERY-FAILURE selftest: %s' % ex, file=sys.stderr)
        sys.exit(2)
