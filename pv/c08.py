"""C08 -- parsing and rendering never fail with an internal error.

Soups.tla: the API as an outcome automaton (Parse -> Db | allowed failure class; from Db every
rendering of the database and of each element -> Text).  Stimuli:
 (a) token soups: ALL lexeme sequences up to a bound over the specification's alphabet (TLC),
     longer ones sampled;
 (b) token-level and character-level mutations of well-formed generated documents;
 (c) every short raw string between each kind of quotes in free-text positions, and awkward quoted
     identifiers in every identifier position of a template document;
 (d) empty, blank, comment-only, BOM-only and deeply parenthesised input.
Every session (parse, then every rendering) is validated by TLC against SessionOK; a hang is
reported as non-termination."""
from __future__ import annotations

import itertools
import json
import re
import signal
import sys
import traceback
from typing import Any, Dict, List

from . import core, tlc, docs, doccheck
from .surface import Form, Printer, print_doc


def _where(ex) -> str:
    tb = traceback.extract_tb(ex.__traceback__)
    for fr in reversed(tb):
        if '/pydbml/' in fr.filename:
            return '%s:%s' % (fr.filename.split('/pydbml/')[-1], fr.name)
    return 'outside pydbml'


class _Timeout(Exception):
    pass


def _alarm(signum, frame):
    raise _Timeout()


def session(text: str, allow: bool = False):
    """parse, then evaluate every rendering; -> (parse outcome, [render outcomes], where)"""
    from pydbml import PyDBML
    from . import project as pj
    # the watchdog counts the CPU time of this process (ITIMER_VIRTUAL), so a loaded machine cannot fake a hang
    signal.signal(signal.SIGVTALRM, _alarm)
    signal.setitimer(signal.ITIMER_VIRTUAL, 15)
    try:
        try:
            db = PyDBML(text, allow_properties=allow)
        except _Timeout:
            return 'NON-TERMINATION', [], 'parse'
        except RecursionError as ex:
            return 'RecursionError', [], _where(ex)
        except Exception as ex:
            return pj.classify(ex), [], _where(ex)
        renders, where = [], ''
        objs: List[Any] = [db] + list(db.tables) + list(db.enums) + list(db.refs) + list(db.table_groups) + list(db.sticky_notes)
        if db.project:
            objs.append(db.project)
        for t in db.tables:
            objs += list(t.columns) + list(t.indexes) + [t.note] + [c.note for c in t.columns] + [x.note for x in t.indexes]
        for e in db.enums:
            objs += list(e.items) + [i.note for i in e.items]
        for g in db.table_groups:
            if g.note is not None:
                objs.append(g.note)
        if db.project:
            objs.append(db.project.note)
        for o in objs:
            for f in (repr, str):                  # textual forms of every object are total too
                try:
                    f(o)
                    renders.append('ok')
                except Exception as ex:
                    renders.append(type(ex).__name__)
                    where = where or '%s(%s) at %s' % (f.__name__, type(o).__name__, _where(ex))
            for kind in ('dbml', 'sql'):
                if not hasattr(type(o), kind):
                    continue
                try:
                    getattr(o, kind)
                    renders.append('ok')
                except _Timeout:
                    renders.append('NON-TERMINATION')
                    where = '%s.%s' % (type(o).__name__, kind)
                except Exception as ex:
                    renders.append(type(ex).__name__)
                    where = where or '%s.%s at %s' % (type(o).__name__, kind, _where(ex))
        return 'db', renders, where
    finally:
        signal.setitimer(signal.ITIMER_VIRTUAL, 0)


def _exec_chunk(items):
    out = []
    for it in items:
        p, r, w = session(it['text'], it.get('allow', False))
        out.append({'tid': it['tid'], 'parse': p, 'renders': r, 'where': w or '-'})
    return out


TEMPLATE = '''Project {P} {{
  k: 'v'
}}
Enum {ES}.{E} {{
  {I}
  other
}}
Table {S}.{T} as {A} {{
  {C} {ES}.{E} [ref: > {S}.{T}.{C2}]
  {C2} {TY}
  indexes {{
    {C} [type: hash] // serves 90% of the lookups (%s, %d, %(x)s, {{0}})
    ({C2}, {C}) [name: 'x']
  }}
}}
Table {U} {{
  id {TY}
  {C} int
}}
Ref {R}: {A}.{C} > {U}.({C}, id)
Ref: {S}.{T}.({C}, {C2}) < {U}.(id, {C})
TableGroup {G} {{
  {A}
  {U}
}}
Note {N} {{
  'x'
}}
'''
SLOTS = {'P': 'proj', 'ES': 'es', 'E': 'en', 'I': 'item', 'S': 'sc', 'T': 'tab', 'A': 'al', 'C': 'col', 'C2': 'col2', 'TY': 'int', 'U': 'utab',
         'R': 'fk', 'G': 'grp', 'N': 'note1'}
AWKWARD = ['"a.b"', '"a.b.c"', '"{"', '"}"', '"{x}"', '" "', '""', '"."', '".."', '"a b"', '"it\'s"', '"%s"', '"{0}"', '"(a)"', '"a,b"', '"`"', '"\\\\"',
           '"[x]"', '"#"', '"//"', '"/*"', '"null"', '"é"', '"🙂"', 't', 'u', 'id', 'public', 'int',
           # backslash sequences inside a quoted name (a lexer may turn them into control characters), names made of brackets and carets
           '"a\\nb"', '"a\\tb"', '"\\n"', '"x\\"', '"a[0]"', '"a^b"', '"`a`"',
           # a parenthesis at one end only (the composite form of a reference is written with parentheses)
           '"(usd"', '"("', '")"', '"a)"', '"(a, b"']
RAW_ALPHA = ['a', ' ', '\n', "'", '"', '\\', '`', '{', '}', '%', '\t', '\r']
TEXT_SITES = ["Table t {\n  id int [note: @L@]\n}\n", "Table t {\n  id int\n  Note: @L@\n}\n", "Table t {\n  id int [default: @L@]\n}\n",
              "Note n {\n  @L@\n}\n", "Project p {\n  k: @L@\n  Note: @L@\n}\n", "Table t {\n  id int\n  indexes {\n    id [name: @L@, note: @L@, type: btree]\n  }\n}\n",
              "Enum e {\n  a [note: @L@]\n}\n", "Table t {\n  id int [k: @L@]\n  k2: @L@\n}\n", "Table t {\n  id int\n}\nTableGroup g [note: @L@] {\n  t\n}\nRef: t.id > t.id // @L@\n"]
_TOK = re.compile(r"'''(?:.|\n)*?'''|'(?:[^'\\\n]|\\.)*'|\"[^\"\n]*\"|`[^`]*`|//[^\n]*|[A-Za-z0-9_#]+|\n|[^\sA-Za-z0-9_]")


def mutations(text: str, r, lexemes: List[str], n: int) -> List[str]:
    toks = _TOK.findall(text)
    out = []
    for _ in range(n):
        t = list(toks)
        k = r.randrange(5)
        i = r.randrange(len(t)) if t else 0
        if not t:
            break
        if k == 0:
            del t[i]
        elif k == 1:
            t.insert(i, t[i])
        elif k == 2 and len(t) > 1:
            j = r.randrange(len(t))
            t[i], t[j] = t[j], t[i]
        elif k == 3:
            t[i] = r.choice(lexemes)
        else:
            t.insert(i, r.choice(lexemes))
        out.append(' '.join(t).replace(' \n ', '\n'))
    for _ in range(n // 2):          # character level
        s = list(text)
        for _ in range(r.randint(1, 3)):
            if not s:
                break
            i = r.randrange(len(s))
            k = r.randrange(3)
            if k == 0:
                del s[i]
            elif k == 1:
                s.insert(i, r.choice('{}[]()\'"`:,.#/*\\\n \t%-<>'))
            else:
                s[i] = r.choice('{}[]()\'"`:,.#/*\\\n \t%-<>a0')
        out.append(''.join(s))
    return out


def main(argv: List[str]) -> int:
    rep = core.Report('C08', 'Soups.tla outcome automaton; TLC-enumerated token soups, mutations of generated documents, exhaustive short raw '
                             'strings and awkward identifiers in every position; every parse-and-render-everything session validated by TLC')
    rep.rule = ('case = one input text (soup / mutation / raw literal / awkward identifier / degenerate input) with the parse call and, if it '
                'returns, every rendering of the database and each element; distinct by text; non-trivial = the text is not empty')
    rep.assumptions = ['"any input text whatsoever" is covered as far as the alphabet, the mutation operators and the bounds reach; the '
                       'specification contributes the alphabet and the outcome automaton and cannot predict accept/reject of a soup',
                       'a case that uses more than 15 s of CPU time is reported as non-termination']
    quick = core.tier() == 'quick'
    cfg = open(tlc.SPEC_DIR + '/MC_Soups.cfg').read().replace('MaxLen = 2', 'MaxLen = 3')
    res = tlc.require_ok(tlc.run('MC_Soups', cfg_text=cfg, workers=core.NCPU, timeout=3000, heap='8g'), 'MC_Soups')
    rep.add_tlc('MC_Soups MaxLen=3', res)
    soups = [p[1] for p in res.prints if p and p[0] == 'S']
    if len(soups) != res.distinct:
        raise core.Machinery('MC_Soups: %d soups for %d states' % (len(soups), res.distinct))
    m = re.search(r'Lexemes == <<(.*?)>>', open(tlc.SPEC_DIR + '/Soups.tla').read(), re.S)
    from . import tla
    lexemes = tla.parse_value('<<' + m.group(1) + '>>')
    r = core.rng('c08')
    texts: Dict[str, str] = {}

    def add(t, origin):
        texts.setdefault(t, origin)
    short = [s for s in soups if len(s) <= 2]
    long3 = [s for s in soups if len(s) == 3]
    chosen = short + (r.sample(long3, 9000) if quick else long3)
    for s in chosen:
        add(' '.join(lexemes[i - 1] for i in s).replace(' \n ', '\n').replace(' \n', '\n').replace('\n ', '\n'), 'soup')
    for _ in range(3000 if quick else 200000):
        n = r.randint(4, 12)
        add(' '.join(r.choice(lexemes) for _ in range(n)).replace(' \n ', '\n'), 'long soup')
    lo = core.seed() * 100000 + 14001
    ds = docs.gen_docs(lo, lo + (40 if quick else 800) - 1, False, rep, with_comments=True)
    for seed, doc in ds:
        text = print_doc(doc, seed, {})
        add(text, 'document')
        add(text.replace('\r\n', '\n').replace('\n', '\r\n'), 'document')          # the same with Windows line ends
        for mtext in mutations(text, r, lexemes, 40 if quick else 120):
            add(mtext, 'mutation')
        # structural mutations: every declaration of one kind removed (references without their tables, groups without their
        # items, columns typed with an enum that is gone ...), and every single declaration removed
        for kind in ('table', 'enum', 'ref', 'group', 'sticky', 'project'):
            if any(d['d'] == kind for d in doc):
                add(print_doc([d for d in doc if d['d'] != kind], seed, {}), 'kind removed')
        for i in range(len(doc)):
            add(print_doc(doc[:i] + doc[i + 1:], seed, {}), 'declaration removed')
    raws = [''.join(p) for n in range(0, 3 if quick else 4) for p in itertools.product(RAW_ALPHA, repeat=n)]
    for raw in raws:
        for q1, q2 in (("'", "'"), ('"', '"'), ("'''", "'''")):
            lit = q1 + raw + q2
            for site in (TEXT_SITES if len(raw) <= 2 else TEXT_SITES[:4]):
                add(site.replace('@L@', lit), 'raw literal')
    for tok in ['1E5', '1e5', '25E-2', '1.5E3', '-3', '+2', '.5', '5.', '0x10', '1_000', '00', '1.2.3', '\u0661\u0662', '\u00b2', '1e', 'E5', 'Infinity', 'NaN',
                'TRUE', 'Null', 'nul', 'tru']:
        add("Table t {\n  id int [default: %s]\n}\n" % tok, 'number-like default')
        add("Table t {\n  id int [default: %s, pk]\n  z int [default:%s]\n}\n" % (tok, tok), 'number-like default')
    add(TEMPLATE.format(**SLOTS), 'awkward identifier')          # the template itself is a valid document
    for slot in SLOTS:
        for a in AWKWARD:
            vals = dict(SLOTS)
            vals[slot] = a
            add(TEMPLATE.format(**vals), 'awkward identifier')
        for other in SLOTS:                                          # the same awkward name in two roles
            if other < slot:
                vals = dict(SLOTS)
                vals[slot] = vals[other] = '""'
                add(TEMPLATE.format(**vals), 'awkward identifier')
    # many-to-many references whose two sides produce the same join column name (self reference, same-named tables in two
    # schemas, a clash of the concatenations): whatever the SQL means, rendering must not escape with an internal error
    for t in ["Table nodes {\n  id int\n}\nRef: nodes.id <> nodes.id\n",
              "Table users {\n  id int\n}\nTable auth.users {\n  id int\n}\nRef: users.id <> auth.users.id\n",
              "Table a {\n  b_c int\n}\nTable a_b {\n  c int\n}\nRef: a.b_c <> a_b.c\n",
              "Table t {\n  a int\n  b int\n}\nRef: t.(a, b) <> t.(b, a)\n",
              "Table t {\n  id int [ref: <> t.id]\n}\n"]:
        add(t, 'degenerate')
    for t in ['', ' ', '\n', '\n\n\n', '\t', '// only a comment', '/* block */', '/* unterminated', '﻿', '﻿\n', '﻿Table t {\n id int\n}',
              '﻿﻿Table t {\n id int\n}', 'Table t {\n id int' + '(' * 8 + '1' + ')' * 8 + '\n}', 'Table t {\n id int [default: `' + '(' * 50 + ')' * 50 + '`]\n}',
              'Table t {\n id "' + 'x' * 5000 + '"\n}', "Table t {\n id int [note: '" + "\\'" * 2000 + "']\n}", '\x00', 'Table t {\n id int\n}\x00']:
        add(t, 'degenerate')
    # strings Python can hold but no encoding can: lone surrogates (what errors='surrogateescape' or a JSON "\\ud83d" produce),
    # non-characters and astral code points, with and without a leading byte order mark
    for t in ['\ud800', "Table t {\n  id int [note: 'caf\udce9']\n}\n", '\ufeff' + "Table t {\n  id int [note: 'caf\udce9']\n}\n",
              'Table "a\udfffb" {\n  id int\n}\n', "Table t {\n  id int // \ud83d\n}\n", "Note n {\n  '\uffff \U0010ffff \U0001f600'\n}\n",
              "Table t {\n  id int [default: `'\udc80'`]\n}\n"]:
        add(t, 'degenerate')
    items = [{'tid': i + 1, 'text': t, 'origin': o, 'allow': ('k:' in t or 'k2:' in t)} for i, (t, o) in enumerate(texts.items())]
    recs: List[Dict[str, Any]] = []
    for part in core.pmap(_exec_chunk, core.chunked(items, core.NCPU * 6)):
        recs += part
    verdicts, st = core.validate('TraceSession', 'TraceSession.cfg', recs)
    rep.add_val_stats('TraceSession', st)
    known = core.known_findings('C08')
    per: Dict[str, int] = {}
    ndb = 0
    for rec in recs:
        it = items[rec['tid'] - 1]
        v = verdicts[rec['tid']]
        rep.evaluations += 1
        per[it['origin']] = per.get(it['origin'], 0) + 1
        ndb += rec['parse'] == 'db'
        if v == '':
            rep.traces_ok += 1
            if it['text']:
                rep.mark_nontrivial(it['text'])
            continue
        kf = [k for k in known if k.get('where') and k['where'] in rec['where'] and k.get('class') in (rec['parse'], *rec['renders'])]
        if kf:
            rep.known(kf[0]['id'])
            rep.traces_ok += 1
            continue
        grp = rep.notes.setdefault('violations_by_site', {})
        key = '%s @ %s' % (rec['parse'] if rec['parse'] != 'db' else [x for x in rec['renders'] if x != 'ok'][0], rec['where'])
        grp[key] = grp.get(key, 0) + 1
        if grp[key] > 3:
            rep.violations.append({'stimulus': None, 'detail': None}) if False else None
        rep.violation({'text': it['text'], 'origin': it['origin'], 'allow': it['allow']},
                      {'failing_clause': v, 'parse': rec['parse'], 'renders': [x for x in rec['renders'] if x != 'ok'][:5], 'where': rec['where']})
    rep.notes['inputs_by_origin'] = per
    never = [o for o in ('soup', 'long soup', 'document', 'mutation', 'kind removed', 'declaration removed', 'raw literal', 'number-like default',
                         'awkward identifier', 'degenerate') if not per.get(o)]
    if never or ndb < 500:
        raise core.Machinery('C08: input families missing: %s; inputs that parsed to a database (and were rendered): %d' % (never, ndb))
    rep.notes['parsed_to_a_database'] = ndb
    rep.samples += [{'origin': items[i]['origin'], 'text': items[i]['text'][:300]} for i in (5, len(items) // 2, len(items) - 30)]
    return rep.finish()


def replay(path: str) -> int:
    core.setup_env()
    v = json.load(open(path))
    recs = _exec_chunk([{'tid': 1, 'text': v['stimulus']['text'], 'allow': v['stimulus'].get('allow', False)}])
    verdicts, _ = core.validate('TraceSession', 'TraceSession.cfg', recs)
    print(repr(v['stimulus']['text'][:500]))
    print('outcome: %s %s  verdict: %r' % (recs[0]['parse'], recs[0]['where'], verdicts[1]))
    if verdicts[1]:
        print('VIOLATION property=C08 replay=%s' % path)
        return 1
    return 0


if __name__ == '__main__':
    try:
        if '--replay' in sys.argv:
            sys.exit(replay(sys.argv[sys.argv.index('--replay') + 1]))
        sys.exit(main(sys.argv[1:]))
    except (core.Machinery, tlc.TlcFailure) as ex:
        print('MACHINERY-FAILURE C08: %s' % ex, file=sys.stderr)
        sys.exit(2)
