"""Builder: a model record of Doc.tla (JSON) -> a real Database through the public classes
(`built through the public classes from values DBML can express`)."""
from __future__ import annotations

from typing import Any, Dict

from .surface import dec


def _opt(s: str):
    return dec(s) if s else None


def _default(d: Dict[str, str]):
    from pydbml.classes import Expression
    k, v = d['k'], d['v']
    if k == 'none':
        return None
    if k == 'int':
        return int(v)
    if k == 'float':
        return float(v)
    if k == 'bool':
        return v == 'true'
    if k == 'str':
        return dec(v)
    if k == 'expr':
        return Expression(dec(v))
    raise ValueError(k)


def build(m: Dict[str, Any], note_as_object: bool = False, **db_kwargs):
    from pydbml.database import Database
    from pydbml.classes import (Table, Column, Index, Reference, Enum, EnumItem, TableGroup, Project, Expression, Note)
    from pydbml._classes.sticky_note import StickyNote

    shared: Dict[str, Any] = {}

    def note(text):
        if not text:
            return None
        if note_as_object == 'shared':
            # the SAME Note object for every element that carries this text (cloning a table, reusing a constant): each
            # element must end up with a note of its own
            return shared.setdefault(text, Note(dec(text)))
        return Note(dec(text)) if note_as_object else dec(text)
    db = Database(allow_properties=m['allowprops'], **db_kwargs)
    enums = []
    for e in m['enums']:
        en = Enum(dec(e['name']), [EnumItem(dec(i['name']), note=note(i['note']), comment=_opt(i['comment'])) for i in e['items']],
                  schema=dec(e['schema']), comment=_opt(e['comment']))
        enums.append(en)
        db.add(en)
    tables = []
    for t in m['tables']:
        tab = Table(dec(t['name']), schema=dec(t['schema']), alias=_opt(t['alias']), note=note(t['note']),
                    header_color=_opt(t['color']), comment=_opt(t['comment']),
                    properties={dec(k): dec(v) for k, v in t['props']} or None)
        for c in t['cols']:
            ty = enums[c['type']['e'] - 1] if c['type']['k'] == 'enum' else dec(c['type']['v'])
            tab.add_column(Column(dec(c['name']), ty, unique=c['unique'], not_null=c['notnull'], pk=c['pk'],
                                  autoinc=c['autoinc'], default=_default(c['default']), note=note(c['note']),
                                  comment=_opt(c['comment']), properties={dec(k): dec(v) for k, v in c['props']} or None))
        for x in t['idxs']:
            subj = [tab.columns[s['i'] - 1] if s['k'] == 'col' else Expression(dec(s['v'])) for s in x['subj']]
            tab.add_index(Index(subjects=subj, name=_opt(x['name']), unique=x['unique'], type=_opt(x['type']), pk=x['pk'],
                                note=note(x['note']), comment=_opt(x['comment'])))
        tables.append(tab)
        db.add(tab)
    for g in m['groups']:
        db.add(TableGroup(dec(g['name']), [tables[i - 1] for i in g['items']], comment=_opt(g['comment']),
                          note=Note(dec(g['note'])) if g['note'] else None, color=_opt(g['color'])))
    for n in m['notes']:
        db.add(StickyNote(dec(n['name']), dec(n['text'])))
    p = m['project']
    if p['present']:
        db.add(Project(dec(p['name']), items={dec(k): dec(v) for k, v in p['items']}, note=note(p['note']),
                       comment=_opt(p['comment'])))
    for r in m['refs']:
        c1 = [tables[r['t1'] - 1].columns[i - 1] for i in r['c1']]
        c2 = [tables[r['t2'] - 1].columns[i - 1] for i in r['c2']]
        db.add(Reference(dec(r['type']), c1, c2, name=_opt(r['name']), comment=_opt(r['comment']),
                         on_update=_opt(r['onupdate']), on_delete=_opt(r['ondelete']), inline=r['inline']))
    return db


def build_moved(m: Dict[str, Any], **db_kwargs):
    """Everything is built in ANOTHER database whose allow_properties flag is the opposite one, rendered there, and then
    moved, element by element through the public delete/add methods, into a new database with the flag of m: what an element
    shows must follow the database it is in NOW."""
    from pydbml.database import Database
    other = dict(m, allowprops=not m['allowprops'])
    src = build(other, **db_kwargs)
    for kind in ('dbml', 'sql'):
        try:
            getattr(src, kind)
            for t in src.tables:
                getattr(t, kind)
                for c in t.columns:
                    getattr(c, kind)
        except Exception:
            pass
    enums, tables, refs = list(src.enums), list(src.tables), list(src.refs)
    groups, notes, project = list(src.table_groups), list(src.sticky_notes), src.project
    for r in refs:
        src.delete(r)
    for g in groups:
        src.delete(g)
    if project is not None:
        src.delete_project()
    for t in tables:
        src.delete(t)
    for e in enums:
        src.delete(e)
    db = Database(allow_properties=m['allowprops'], **db_kwargs)
    for o in enums + tables + groups + notes + ([project] if project is not None else []) + refs:
        db.add(o)
    return db


def build_abstract(m: Dict[str, Any], **db_kwargs):
    """built through the API with the public constructor flag abstract=True (the flag of many-to-many join tables) on
    every table that holds no inline foreign key: for such a table the flag changes nothing the properties speak about"""
    db = build(m, **db_kwargs)
    holders = set()
    for r in m['refs']:
        if r['inline'] and r['type'] != '<>':
            holders.add(r['t2'] if r['type'] == '<' else r['t1'])
    for i, t in enumerate(db.tables):
        if (i + 1) not in holders:
            t.abstract = True
    return db


def build_stub(m: Dict[str, Any], **db_kwargs):
    """built through the API, plus one table WITHOUT columns (the parser refuses such a table, the constructors do not): returns
    the database and the content it now has.  Database.add appends: the stub is the last table."""
    import copy
    from pydbml.database import Database
    from pydbml.classes import Table, Note
    from . import project as pj

    def stub():
        return Table('stub tbl', schema='s1', note=Note('a stub'))
    lone = Database()
    lone.add(stub())
    db = build(m, **db_kwargs)
    db.add(stub())
    m2 = copy.deepcopy(m)
    m2['tables'] = m2['tables'] + [pj.project_db(lone)['tables'][0]]
    return db, m2


def build_alias_namesake(m: Dict[str, Any], **db_kwargs):
    """built through the API, then one table is given an ALIAS that is the name of another table of the public schema
    (Doc!WellFormed keeps such documents out of the generated ones; the library allows them and Doc!Locate says what an
    address means then: the full name first).  Returns the database and the content it now has (m itself if no pair fits)."""
    import copy
    import re
    db = build(m, **db_kwargs)
    taken = {t['alias'] for t in m['tables'] if t['alias']} | {'%s.%s' % (t['schema'] or 'public', t['name']) for t in m['tables']}
    for b, tb in enumerate(m['tables']):
        if (tb['schema'] or 'public') != 'public' or not re.fullmatch(r'[A-Za-z_][A-Za-z0-9_]*', tb['name']) or tb['name'] in taken \
                or tb['name'].lower() in ('table', 'note', 'ref', 'enum', 'as', 'indexes', 'project', 'tablegroup', 'notes', 'tables'):
            continue
        for a, ta in enumerate(m['tables']):
            if a != b and not ta['alias']:
                db.tables[a].alias = tb['name']
                m2 = copy.deepcopy(m)
                m2['tables'][a]['alias'] = tb['name']
                return db, m2
    return db, m


def build_col_moved(m: Dict[str, Any], **db_kwargs):
    """The same final content reached by MOVING a column: a column that carries one end of a reference (the last column of its
    table, named in no index) first lives in another table; the database is rendered (whatever a reference remembers about
    its end points is remembered now); then the column is moved home through Table.delete_column / add_column and lands
    in its place.  Returns the database (m's content) or a plain build if no column of m qualifies."""
    import copy
    for r in m['refs']:
        for side in ('1', '2'):
            t, cs = r['t' + side], r['c' + side]
            if not t or len(cs) != 1:
                continue
            A = m['tables'][t - 1]
            c = cs[0]
            if c != len(A['cols']) or len(A['cols']) < 2:
                continue
            if any(sj.get('k') == 'col' and sj.get('i') == c for x in A['idxs'] for sj in x['subj']):
                continue
            name = A['cols'][c - 1]['name']
            hosts = [b for b, B in enumerate(m['tables'], 1) if b != t and all(col['name'] != name for col in B['cols'])
                     and not any(q is not r and ((q['t1'] == b) or (q['t2'] == b)) and q['type'] == r['type'] for q in m['refs'])]
            if not hosts:
                continue
            b = hosts[0]
            old = copy.deepcopy(m)
            col = old['tables'][t - 1]['cols'].pop()
            old['tables'][b - 1]['cols'].append(col)
            pos = len(old['tables'][b - 1]['cols'])
            for q in old['refs']:
                for sd in ('1', '2'):
                    if q['t' + sd] == t and c in q['c' + sd]:
                        if len(q['c' + sd]) != 1:
                            break
                        q['t' + sd], q['c' + sd] = b, [pos]
                else:
                    continue
                break
            else:
                try:
                    db = build(old, **db_kwargs)
                except Exception:
                    continue                      # (the detour made two references equal, or the like: try another column)
                for kind in ('sql', 'dbml'):
                    try:
                        getattr(db, kind)
                        for ref in db.refs:
                            getattr(ref, kind)
                    except Exception:
                        pass
                moved = db.tables[b - 1].delete_column(db.tables[b - 1].columns[-1])
                db.tables[t - 1].add_column(moved)
                return db
    return build(m, **db_kwargs)


def build_morphed(m: Dict[str, Any], aspects=('names', 'types', 'settings', 'refs'), **db_kwargs):
    """The same final content reached the long way round: a database is built from a DIFFERENT content (other table and
    column names, types, flags, defaults, notes, actions), rendered to SQL and DBML (whatever a renderer or a model object
    may remember is remembered now), and then edited in place, attribute by attribute, into the content of m.
    aspects: which part of the content starts out different (a memory keyed on the rest is then not invalidated by accident)."""
    import copy
    from pydbml.classes import Note
    old = copy.deepcopy(m)
    names, types, settings, refs = ('names' in aspects), ('types' in aspects), ('settings' in aspects), ('refs' in aspects)
    for t in old['tables']:
        if names:
            t['name'] = t['name'] + '_old'
        if settings and t['note']:
            t['note'] = 'old note'
        for c in t['cols']:
            if names:
                c['name'] = c['name'] + '_old'
            if types and c['type']['k'] == 'str':
                c['type'] = {'k': 'str', 'v': 'zz_old_type'}
            if settings:
                c['unique'], c['notnull'] = not c['unique'], not c['notnull']
                if c['default']['k'] != 'none':
                    c['default'] = {'k': 'str', 'v': 'zz_old'}
                if c['note']:
                    c['note'] = 'old note'
    for e in old['enums']:
        if names:
            e['name'] = e['name'] + '_old'
    for r in old['refs']:
        if settings:
            r['onupdate'], r['ondelete'] = r['ondelete'], r['onupdate']
            if r['name']:
                r['name'] = r['name'] + '_old'
        if refs:
            # another kind and the other inline-ness: which table holds the key, and where, starts out different; a reference
            # that ends up many-to-many starts out as an INLINE one of another kind (and its flag is then left alone, as a
            # user converting it would leave it: the flag has no meaning for many-to-many)
            r['inline'] = True if r['type'] == '<>' else not r['inline']
            r['type'] = {'>': '<', '<': '-', '-': '<>', '<>': '>'}[r['type']]       # a bijection: distinct references stay distinct
    db = build(old, **db_kwargs)
    for kind in ('sql', 'dbml'):
        try:
            getattr(db, kind)
            for t in db.tables:
                getattr(t, kind)
            for r in db.refs:
                getattr(r, kind)
        except Exception:
            pass
    for T, t in zip(db.tables, m['tables']):
        T.name = dec(t['name'])
        if t['note']:
            T.note = Note(dec(t['note']))
        for C, c in zip(T.columns, t['cols']):
            C.name = dec(c['name'])
            if c['type']['k'] == 'str':
                C.type = dec(c['type']['v'])
            C.unique, C.not_null = c['unique'], c['notnull']
            C.default = _default(c['default'])
            if c['note']:
                C.note = Note(dec(c['note']))
    for E, e in zip(db.enums, m['enums']):
        E.name = dec(e['name'])
    for R, r in zip(db.refs, m['refs']):
        R.on_update, R.on_delete, R.name = _opt(r['onupdate']), _opt(r['ondelete']), _opt(r['name'])
        if 'refs' in aspects:
            R.type = dec(r['type'])
            if r['type'] != '<>':
                R.inline = r['inline']
    return db
