"""Builder: a model record of Doc.tla (JSON) -> a real Database through the public classes
(`built through the public classes from values DBML can express`)."""
from __future__ import annotations

from typing import Any, Dict

from .surface import dec


def _opt(s: str):
    return dec(s) if s else None


def _default(d: Dict[str, str]):
    from pydbml.classes import Expression
    k, v = d['k'], d['v']
    if k == 'none':
        return None
    if k == 'int':
        return int(v)
    if k == 'float':
        return float(v)
    if k == 'bool':
        return v == 'true'
    if k == 'str':
        return dec(v)
    if k == 'expr':
        return Expression(dec(v))
    raise ValueError(k)


def build(m: Dict[str, Any], note_as_object: bool = False, **db_kwargs):
    from pydbml.database import Database
    from pydbml.classes import (Table, Column, Index, Reference, Enum, EnumItem, TableGroup, Project, Expression, Note)
    from pydbml._classes.sticky_note import StickyNote

    def note(text):
        if not text:
            return None
        return Note(dec(text)) if note_as_object else dec(text)
    db = Database(allow_properties=m['allowprops'], **db_kwargs)
    enums = []
    for e in m['enums']:
        en = Enum(dec(e['name']), [EnumItem(dec(i['name']), note=note(i['note']), comment=_opt(i['comment'])) for i in e['items']],
                  schema=dec(e['schema']), comment=_opt(e['comment']))
        enums.append(en)
        db.add(en)
    tables = []
    for t in m['tables']:
        tab = Table(dec(t['name']), schema=dec(t['schema']), alias=_opt(t['alias']), note=note(t['note']),
                    header_color=_opt(t['color']), comment=_opt(t['comment']),
                    properties={dec(k): dec(v) for k, v in t['props']} or None)
        for c in t['cols']:
            ty = enums[c['type']['e'] - 1] if c['type']['k'] == 'enum' else dec(c['type']['v'])
            tab.add_column(Column(dec(c['name']), ty, unique=c['unique'], not_null=c['notnull'], pk=c['pk'],
                                  autoinc=c['autoinc'], default=_default(c['default']), note=note(c['note']),
                                  comment=_opt(c['comment']), properties={dec(k): dec(v) for k, v in c['props']} or None))
        for x in t['idxs']:
            subj = [tab.columns[s['i'] - 1] if s['k'] == 'col' else Expression(dec(s['v'])) for s in x['subj']]
            tab.add_index(Index(subjects=subj, name=_opt(x['name']), unique=x['unique'], type=_opt(x['type']), pk=x['pk'],
                                note=note(x['note']), comment=_opt(x['comment'])))
        tables.append(tab)
        db.add(tab)
    for g in m['groups']:
        db.add(TableGroup(dec(g['name']), [tables[i - 1] for i in g['items']], comment=_opt(g['comment']),
                          note=Note(dec(g['note'])) if g['note'] else None, color=_opt(g['color'])))
    for n in m['notes']:
        db.add(StickyNote(dec(n['name']), dec(n['text'])))
    p = m['project']
    if p['present']:
        db.add(Project(dec(p['name']), items={dec(k): dec(v) for k, v in p['items']}, note=note(p['note']),
                       comment=_opt(p['comment'])))
    for r in m['refs']:
        c1 = [tables[r['t1'] - 1].columns[i - 1] for i in r['c1']]
        c2 = [tables[r['t2'] - 1].columns[i - 1] for i in r['c2']]
        db.add(Reference(dec(r['type']), c1, c2, name=_opt(r['name']), comment=_opt(r['comment']),
                         on_update=_opt(r['onupdate']), on_delete=_opt(r['ondelete']), inline=r['inline']))
    return db
