"""C17 -- inconsistent models are refused at render time, not rendered as bogus output.

Invalid.tla drives a small universe of real objects through every history of up to MaxSteps edits
(attribute set to None / restored, element detached by delete_*, column moved to another table,
inline flag set on a composite reference, table removed from / added to the database).  After
every edit all 15 queries (.sql/.dbml of elements and of the database, Reference.table1,
get_refs) are evaluated; TLC checks each observed outcome class against Invalid!Out wherever the
property speaks (exactly one defect, or none: then every query must succeed)."""
from __future__ import annotations

import json
import sys
from typing import Any, Dict, List

from . import core, tlc

QUERIES = ['T.sql', 'a.sql', 'E.sql', 'i.sql', 'I.sql', 'R.sql', 'R.dbml', 'R.table1', 'T.get_refs', 'a.get_refs', 'b.get_refs',
           'db.sql', 'db.dbml', 'R2.sql', 'R2.dbml']


PLAIN = {'ipk': False, 'iunique': False, 'apk': False, 'rtype': '>', 'r2inline': False, 'aenum': False, 'tabstract': False}


class World:
    def __init__(self, fl=None, by_copy=False):
        fl = fl or PLAIN
        # members are named by VALUE in the delete_* calls (an equal, distinct object) in every other case: what is removed and
        # detached is the member, never the object that was handed in
        import copy
        self.named = (lambda o: copy.copy(o)) if by_copy else (lambda o: o)
        from pydbml.database import Database
        from pydbml.classes import Table, Column, Index, Reference, Enum, EnumItem
        self.D = Database()
        self.T = Table('t', abstract=fl['tabstract'])
        self.E = Enum('e', [EnumItem('i')])
        self.a, self.b = Column('a', self.E if fl['aenum'] else 'int', pk=fl['apk']), Column('b', 'int')
        self.T.add_column(self.a)
        self.T.add_column(self.b)
        self.c = Column('c', 'int')
        self.T.add_column(self.c)
        self.U = Table('u')
        self.x, self.y = Column('x', 'int'), Column('y', 'int')
        self.U.add_column(self.x)
        self.U.add_column(self.y)
        self.V = Table('t', schema='s2')
        self.V.add_column(Column('z', 'int'))
        self.I = Index(subjects=[self.c], pk=fl['ipk'], unique=fl['iunique'])
        self.T.add_index(self.I)
        for o in (self.T, self.U, self.V, self.E):
            self.D.add(o)
        self.R = Reference(fl['rtype'], [self.a, self.b], [self.x, self.y])
        self.D.add(self.R)
        self.R2 = Reference('>', [self.a], [self.x], inline=fl['r2inline'])
        self.D.add(self.R2)
        self.saved = {'tname': 't', 'tschema': 'public', 'aname': 'a', 'atype': self.E if fl['aenum'] else 'int', 'ename': 'e', 'eschema': 'public', 'iname': 'i'}

    def _attr(self, a):
        return {'tname': (self.T, 'name'), 'tschema': (self.T, 'schema'), 'aname': (self.a, 'name'), 'atype': (self.a, 'type'),
                'ename': (self.E, 'name'), 'eschema': (self.E, 'schema'), 'iname': (self.E.items[0], 'name')}[a]

    def edit(self, e):
        op = e['op']
        if op == 'unset':
            o, f = self._attr(e['a'])
            setattr(o, f, None)
        elif op == 'reset':
            o, f = self._attr(e['a'])
            setattr(o, f, self.saved[e['a']])
        elif op == 'delete_index':
            self.T.delete_index(self.named(self.I))
        elif op == 'add_index':
            self.T.add_index(self.I)
        elif op == 'refused_add_index':
            try:
                self.U.add_index(self.I)
            except Exception:
                pass
        elif op == 'delete_col_a':
            self.T.delete_column(self.named(self.a))
        elif op == 'delete_col_b':
            self.T.delete_column(self.named(self.b))
        elif op == 'add_a_to_T':
            self.T.add_column(self.a)
        elif op == 'add_b_to_T':
            self.T.add_column(self.b)
        elif op == 'add_b_to_U':
            self.U.add_column(self.b)
        elif op == 'add_b_to_V':
            self.V.add_column(self.b)
        elif op == 'set_inline':
            self.R.inline = True
        elif op == 'unset_inline':
            self.R.inline = False
        elif op == 'delete_table':
            self.D.delete(self.named(self.T))
        elif op == 'add_table':
            self.D.add(self.T)
        else:
            raise RuntimeError(op)

    def query(self, q):
        f = {'T.sql': lambda: self.T.sql, 'a.sql': lambda: self.a.sql, 'E.sql': lambda: self.E.sql,
             'i.sql': lambda: self.E.items[0].sql, 'I.sql': lambda: self.I.sql, 'R.sql': lambda: self.R.sql,
             'R.dbml': lambda: self.R.dbml, 'R.table1': lambda: self.R.table1, 'T.get_refs': lambda: self.T.get_refs(),
             'a.get_refs': lambda: self.a.get_refs(), 'b.get_refs': lambda: self.b.get_refs(),
             'db.sql': lambda: self.D.sql, 'db.dbml': lambda: self.D.dbml,
             'R2.sql': lambda: self.R2.sql, 'R2.dbml': lambda: self.R2.dbml}[q]
        try:
            f()
            return 'ok'
        except Exception as ex:
            return type(ex).__name__


def _exec_chunk(items):
    out = []
    for it in items:
        w = World(it.get('fl'), by_copy=bool(it.get('by_copy', it['tid'] % 2)))
        steps = [{q: w.query(q) for q in QUERIES}]
        hist = []
        for e in it['hist']:
            try:
                w.edit(e)
            except RuntimeError:
                raise
            except Exception:
                break               # an edit refused in a multiply inconsistent state: nothing the property speaks about
            hist.append(e)
            steps.append({q: w.query(q) for q in QUERIES})
        out.append({'tid': it['tid'], 'hist': hist, 'steps': steps, 'fl': it.get('fl') or PLAIN})
    return out


def main(argv: List[str]) -> int:
    rep = core.Report('C17', 'Invalid.tla: all edit histories up to a depth bound over a universe of real objects; outcome class of 15 '
                             'render/query calls after every edit validated by TLC against Invalid!Out')
    rep.rule = ('case = one edit history (24 edit kinds, all enabled sequences up to the depth bound); after every edit all 15 queries '
                'are evaluated; non-trivial = the history reaches a state with exactly one defect')
    rep.assumptions = ['states with several simultaneous defects are observed but not judged (the property does not say which error wins)']
    depth = 3 if core.tier() == 'quick' else 4
    cfg = open(tlc.SPEC_DIR + '/MC_Invalid.cfg').read().replace('MaxSteps = 3', 'MaxSteps = %d' % depth)
    res = tlc.require_ok(tlc.run('MC_Invalid', cfg_text=cfg, workers=core.NCPU, timeout=3000), 'MC_Invalid')
    rep.add_tlc('MC_Invalid depth %d' % depth, res)
    hists = [p[1] for p in res.prints if p and p[0] == 'H']
    if len(hists) != res.distinct:
        raise core.Machinery('MC_Invalid: %d histories for %d states' % (len(hists), res.distinct))
    rep.exhaustive = True
    flavours = [p[1] for p in res.prints if p and p[0] == 'F'][0]
    if len(flavours) != 256 or PLAIN not in flavours:
        raise core.Machinery('MC_Invalid: flavours %r' % (flavours,))
    others = [f for f in flavours if f != PLAIN]
    items = [{'tid': i + 1, 'hist': h, 'fl': PLAIN} for i, h in enumerate(hists)]
    # every history in the plain universe; in the other flavours every history up to depth 2 (quick: plus each longer one in
    # one flavour, by rotation; thorough: every history up to depth 3 in every flavour)
    # every history in the plain universe; in the other 255 flavours: every history up to depth 1 (quick) / 2 (thorough), eight
    # flavours by rotation one level deeper, one flavour beyond
    full = 1 if core.tier() == 'quick' else 2
    for i, h in enumerate(hists):
        if len(h) <= full:
            fs = others
        elif len(h) == full + 1:
            fs = [others[(i * 8 + k) % len(others)] for k in range(8)]
        else:
            fs = [others[i % len(others)]]
        for f in fs:
            items.append({'tid': len(items) + 1, 'hist': h, 'fl': f})
    rep.notes['flavours'] = len(flavours)
    for it in items:
        it['by_copy'] = it['tid'] % 2
    recs: List[Dict[str, Any]] = []
    for part in core.pmap(_exec_chunk, core.chunked(items, core.NCPU * 2)):
        recs += part
    cfgt = open(tlc.SPEC_DIR + '/TraceInvalid.cfg').read().replace('MaxSteps = 3', 'MaxSteps = %d' % depth)
    verdicts, st = core.validate('TraceInvalid', 'TraceInvalid.cfg', recs, cfg_text=cfgt)
    rep.add_val_stats('TraceInvalid', st)
    reached = set()
    for r in recs:
        v, singles = verdicts[r['tid']]
        reached |= set(singles)
        rep.evaluations += 1
        if v == '':
            rep.traces_ok += 1
            if r['hist']:
                rep.mark_nontrivial(r['hist'])
        else:
            rep.violation({'hist': items[r['tid'] - 1]['hist'], 'fl': items[r['tid'] - 1]['fl'], 'by_copy': items[r['tid'] - 1]['by_copy']}, {'failing_clause': v, 'outcomes': r['steps']})
    alld = {'tname', 'tschema', 'aname', 'atype', 'ename', 'eschema', 'iname', 'index detached', 'a detached', 'b detached',
            'mixed side', 'composite inline', 'table detached'}
    if reached != alld:
        raise core.Machinery('C17: single defects never reached (hence never judged): %s' % sorted(alld - reached))
    rep.notes['single_defects_reached_and_judged'] = sorted(reached)
    rep.samples.append({'history': hists[len(hists) // 2], 'outcomes_after': recs[len(recs) // 2]['steps'][-1]})
    return rep.finish()


def replay(path: str) -> int:
    core.setup_env()
    v = json.load(open(path))
    recs = _exec_chunk([{'tid': 1, 'hist': v['stimulus']['hist'], 'fl': v['stimulus'].get('fl'), 'by_copy': v['stimulus'].get('by_copy', 0)}])
    cfgt = open(tlc.SPEC_DIR + '/TraceInvalid.cfg').read().replace('MaxSteps = 3', 'MaxSteps = 6')
    verdicts, _ = core.validate('TraceInvalid', 'TraceInvalid.cfg', recs, cfg_text=cfgt)
    print('verdict: %r' % (verdicts[1],))
    if verdicts[1][0]:
        print('VIOLATION property=C17 replay=%s' % path)
        return 1
    return 0


if __name__ == '__main__':
    try:
        if '--replay' in sys.argv:
            sys.exit(replay(sys.argv[sys.argv.index('--replay') + 1]))
        sys.exit(main(sys.argv[1:]))
    except (core.Machinery, tlc.TlcFailure) as ex:
        print('MACHINERY-FAILURE C17: %s' % ex, file=sys.stderr)
        sys.exit(2)
