"""Shared engine of the parser-family checks (C01, C05, C06, C12, C14, C15, C11):
TLC generates abstract documents (GenDoc.tla), the harness prints each in several surface forms,
parses the text with the library in /repo, projects the result, and TLC (TraceDoc.tla) decides."""
from __future__ import annotations

import json
from typing import Any, Dict, List, Optional, Tuple

from . import core, tlc
from .surface import DIMENSIONS, print_doc, print_doc_ex, dec

GEN_CFG = '''CONSTANTS
  SeedLo = %d
  SeedHi = %d
  WithProps = %s
  WithComments = %s
INIT Init
NEXT Next
INVARIANT DesignFaithful
INVARIANT DesignLinked
INVARIANT DesignOptionNeutral
INVARIANT Emit
CHECK_DEADLOCK FALSE
'''


def gen_docs(lo: int, hi: int, with_props: bool, rep: core.Report, module: str = 'MC_GenDoc',
             with_comments: bool = False) -> List[Tuple[int, Any]]:
    res = tlc.require_ok(tlc.run_sharded(module, lambda a, b: GEN_CFG % (a, b, 'TRUE' if with_props else 'FALSE', 'TRUE' if with_comments else 'FALSE'),
                                         lo, hi, timeout=3000), module)
    if res.violated:
        raise core.Machinery('design-level property %s violated in %s\n%s' % (res.violated, module, res.out[-3000:]))
    rep.add_tlc('%s seeds %d..%d props=%s' % (module, lo, hi, with_props), res)
    docs = [(p[1], json.loads(p[2])) for p in res.prints if p and p[0] == 'DOC']
    if not docs:
        raise core.Machinery('generator %s produced no documents' % module)
    docs.sort(key=lambda x: x[0])
    return docs


FAULT_CFG = '''CONSTANTS
  SeedLo = %d
  SeedHi = %d
  WithProps = %s
  WithComments = FALSE
INIT FInit
NEXT FNext
INVARIANT Ruled
INVARIANT EmitFault
CHECK_DEADLOCK FALSE
'''


def gen_faults(lo: int, hi: int, rep: core.Report):
    """single-fault documents (GenFault.tla); TLC checks Ruled on each. -> [(id, {'doc':..., 'kind':...})]"""
    res = tlc.require_ok(tlc.run_sharded('MC_GenFault', lambda a, b: FAULT_CFG % (a, b, 'FALSE'), lo, hi, timeout=3000), 'MC_GenFault')
    if res.violated:
        raise core.Machinery('design-level property %s violated in MC_GenFault\n%s' % (res.violated, res.out[-3000:]))
    rep.add_tlc('MC_GenFault seeds %d..%d' % (lo, hi), res)
    out = [(p[1], json.loads(p[2])) for p in res.prints if p and p[0] == 'DOC']
    if not out:
        raise core.Machinery('generator MC_GenFault produced no documents')
    out.sort(key=lambda x: x[0])
    return out


MODEL_CFG = '''CONSTANTS
  SeedLo = %d
  SeedHi = %d
  WithProps = %s
  WithComments = %s
INIT Init
NEXT Next
INVARIANT DesignRoundTrip
INVARIANT DesignFixpoint
INVARIANT EmitModel
CHECK_DEADLOCK FALSE
'''


def gen_models(lo: int, hi: int, with_props: bool, with_comments: bool, rep: core.Report):
    """documents together with their models ParseDoc(doc) (GenModel.tla); TLC checks the design-level
    round trip and fixpoint on each.  -> [(seed, {'doc':..., 'model':..., 'reforder': bool})]"""
    res = tlc.require_ok(tlc.run_sharded('MC_GenModel', lambda a, b: MODEL_CFG % (a, b, 'TRUE' if with_props else 'FALSE',
                                                                                     'TRUE' if with_comments else 'FALSE'),
                                         lo, hi, timeout=3000), 'MC_GenModel')
    if res.violated:
        raise core.Machinery('design-level property %s violated in MC_GenModel\n%s' % (res.violated, res.out[-3000:]))
    rep.add_tlc('MC_GenModel seeds %d..%d props=%s comments=%s' % (lo, hi, with_props, with_comments), res)
    out = [(p[1], json.loads(p[2])) for p in res.prints if p and p[0] == 'DOC']
    if not out:
        raise core.Machinery('generator MC_GenModel produced no models')
    out.sort(key=lambda x: x[0])
    return out


PRODUCT_CFG = '''CONSTANTS
  SeedLo = %d
  SeedHi = %d
  WithProps = FALSE
  WithComments = FALSE
  Family = "%s"
INIT Init
NEXT Next
INVARIANT ProductFaithful
INVARIANT EmitProduct
CHECK_DEADLOCK FALSE
'''
SIZE_CFG = '''CONSTANTS
  SeedLo = 1
  SeedHi = 1
  WithProps = FALSE
  WithComments = FALSE
  Family = "%s"
INIT Init
NEXT Next
INVARIANT EmitSize
CHECK_DEADLOCK FALSE
'''
_SIZES: Dict[str, int] = {}


def family_size(family: str) -> int:
    """size of a feature product, asked of the specification itself (GenProduct!FamilySize): never a constant kept in step by hand"""
    if family not in _SIZES:
        res = tlc.require_ok(tlc.run('MC_GenProduct', cfg_text=SIZE_CFG % family, workers=1, timeout=600), 'MC_GenProduct size')
        s = [p[1] for p in res.prints if p and p[0] == 'SIZE']
        if len(s) != 1 or s[0] % 7919 == 0:
            raise core.Machinery('GenProduct!FamilySize(%s): %r' % (family, s))
        _SIZES[family] = s[0]
    return _SIZES[family]


def gen_products(family: str, count: int, rep: core.Report):
    """the first `count` elements (all if count >= size) of a per-element feature product (GenProduct.tla), spread over all
    dimensions by a stride; -> [(family:index, doc)]"""
    hi = min(count, family_size(family))
    res = tlc.require_ok(tlc.run_sharded('MC_GenProduct', lambda a, b: PRODUCT_CFG % (a, b, family), 1, hi, timeout=3000), 'MC_GenProduct')
    if res.violated:
        raise core.Machinery('design-level property %s violated in MC_GenProduct(%s)\n%s' % (res.violated, family, res.out[-3000:]))
    rep.add_tlc('MC_GenProduct %s 1..%d of %d' % (family, hi, family_size(family)), res)
    out = [('%s:%d' % (family, p[1]), json.loads(p[2])) for p in res.prints if p and p[0] == 'DOC']
    out.sort(key=lambda x: x[0])
    return out, hi >= family_size(family)


def form_plan(nrandom: int, sweep: bool, base_seed: int) -> List[Tuple[Optional[int], Dict[str, Any]]]:
    """the forms each document is printed in: canonical, every single dimension pinned to every
    non-default value (sweep), and seeded random combinations of all dimensions"""
    plan: List[Tuple[Optional[int], Dict[str, Any]]] = [(None, {})]
    if sweep:
        for dim, vals in DIMENSIONS.items():
            for v in vals[1:]:
                plan.append((None, {dim: v}))
    for i in range(nrandom):
        plan.append((base_seed * 1000 + i, {}))
    return plan


def _exec_chunk(items):
    from . import project as pj
    out = []
    for it in items:
        try:
            exact = False
            if it.get('text') is not None:
                text = it['text']
            else:
                text, exact = print_doc_ex(it['doc'], it['fseed'], it['pinned'], it.get('noise'))
        except AssertionError as ex:
            out.append({'tid': it['tid'], 'skip': 'printer: %s' % ex})
            continue
        result, links, db = pj.parse_and_project(text, allow=it['allow'], links=it['want'] in ('links', 'selflinks'), via=it.get('via', 'str'))
        # (C14) extra comments where nothing captures them: not even a comment attribute may change
        want = 'model' if it['want'] == 'inert' and exact else it['want']
        rec = {'tid': it['tid'], 'doc': it['doc'], 'allow': it['allow'], 'want': want,
               'result': result, 'links': links, 'obs': {'off': {'kind': 'none'}, 'same_dbml': True, 'same_sql': True,
                                                         'store': {'t': 0, 'c': 0, 'k': '', 'v': ''}, 'after': {'kind': 'none'}},
               '_text': text}
        if it['want'] == 'props':
            # the same text under the other option value, and whether the renderings agree
            off, _, db2 = pj.parse_and_project(text, allow=False, links=False)
            rec['obs']['off'] = off
            if db is not None and db2 is not None:
                for kind in ('dbml', 'sql'):
                    try:
                        rec['obs']['same_' + kind] = getattr(db, kind) == getattr(db2, kind)
                    except Exception as ex:
                        rec['obs']['same_' + kind] = False
                        rec['obs']['render_error'] = '%s: %s' % (kind, type(ex).__name__)
            if db is not None and db.tables:
                # one more property stored in place on one object of the database (the way docs/properties.md shows)
                t = it['tid'] % len(db.tables)
                c = (it['tid'] // 7) % (len(db.tables[t].columns) + 1)
                obj = db.tables[t] if c == 0 else db.tables[t].columns[c - 1]
                try:
                    obj.properties['zz_stored'] = 'v %d' % it['tid']
                    rec['obs']['store'] = {'t': t + 1, 'c': c, 'k': 'zz_stored', 'v': 'v %d' % it['tid']}
                    rec['obs']['after'] = pj.project_db(db)
                except Exception as ex:
                    rec['obs']['store'] = {'t': t + 1, 'c': c, 'k': 'zz_stored', 'v': 'v %d' % it['tid']}
                    rec['obs']['after'] = {'kind': 'error', 'class': pj.classify(ex)}
        out.append(rec)
    return out


def run_items(items: List[Dict[str, Any]], rep: core.Report, label: str):
    """items: dicts with tid, doc, allow, want, fseed, pinned (+ anything else, carried along).
    Returns {tid: (verdict, record)}."""
    chunks = core.chunked(items, core.NCPU * 4)
    recs: List[Dict[str, Any]] = []
    for part in core.pmap(_exec_chunk, chunks):
        recs += part
    good = [r for r in recs if 'skip' not in r]
    texts = {r['tid']: r.pop('_text') for r in good}
    verdicts, st = core.validate('TraceDoc', 'TraceDoc.cfg', good)
    rep.add_val_stats('TraceDoc ' + label, st)
    out = {}
    for r in good:
        r['text'] = texts[r['tid']]
        out[r['tid']] = (verdicts[r['tid']], r)
    for r in recs:
        if 'skip' in r:
            out[r['tid']] = ('skip:' + r['skip'], r)
    return out


def doc_features(doc) -> int:
    """number of optional features a document uses (for the non-triviality count)"""
    n = 0
    for d in doc:
        if d['d'] == 'table':
            n += bool(d['alias']) + bool(d['color']) + bool(d['note']) + bool(d['schema']) + len(d['idxs']) + len(d['props'])
            for c in d['cols']:
                n += c['pk'] + c['unique'] + c['notnull'] + c['autoinc'] + (c['default']['k'] != 'none') + bool(c['note']) + len(c['refs']) + len(c['props'])
        elif d['d'] == 'ref':
            n += 1
        elif d['d'] in ('enum', 'group', 'sticky', 'project'):
            n += 1
    return n


PRODUCT_MODEL_CFG = '''CONSTANTS
  SeedLo = %d
  SeedHi = %d
  WithProps = FALSE
  WithComments = FALSE
  Family = "%s"
INIT Init
NEXT Next
INVARIANT ProductFaithful
INVARIANT ProductRoundTrip
INVARIANT EmitProductModel
CHECK_DEADLOCK FALSE
'''


PRODUCT_BUDGET = {'quick': {'column': 160, 'index': 120, 'table': 80, 'ref': 240, 'enum': 54, 'misc': 80},
                  'thorough': {'column': 6000, 'index': 1008, 'table': 576, 'ref': 5000, 'enum': 108, 'misc': 729}}


def product_models(rep: core.Report, families=('column', 'index', 'table', 'ref', 'enum', 'misc'), scale: float = 1.0):
    """a slice of every family (all of it where the budget allows), starting where VERIF_SEED says"""
    out = []
    complete = {}
    for fam in families:
        n = max(1, int(PRODUCT_BUDGET[core.tier()][fam] * scale))
        ms, full = gen_product_models(fam, 1 + (core.seed() - 1) * n, n, rep)
        complete[fam] = full
        out += ms
    rep.notes['product_families_complete'] = complete
    return out


def gen_product_models(family: str, lo: int, count: int, rep: core.Report):
    """`count` elements of a per-element feature product, from position `lo` of the stride order (wrapping), with their models
    (GenProductModel.tla) -> [(family:index, {'doc', 'model', 'reforder'})] -- the shape gen_models returns"""
    size = family_size(family)
    count = min(count, size)
    lo = (lo - 1) % size + 1
    ranges = [(lo, min(size, lo + count - 1))]
    if lo + count - 1 > size:
        ranges.append((1, lo + count - 1 - size))
    out = []
    for a, b in ranges:
        res = tlc.require_ok(tlc.run_sharded('MC_GenProductModel', lambda x, y: PRODUCT_MODEL_CFG % (x, y, family), a, b, timeout=3000),
                             'MC_GenProductModel')
        if res.violated:
            raise core.Machinery('design-level property %s violated in MC_GenProductModel(%s)\n%s' % (res.violated, family, res.out[-3000:]))
        rep.add_tlc('MC_GenProductModel %s %d..%d of %d' % (family, a, b, size), res)
        out += [('%s:%d' % (family, p[1]), json.loads(p[2])) for p in res.prints if p and p[0] == 'DOC']
    out.sort(key=lambda x: x[0])
    return out, count >= size
