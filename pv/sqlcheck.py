"""Engine of the SQL checks (C03, C04, C18; SQL side of C14): database under test -> .sql ->
DDL reader -> statement records; TraceSql.tla executes them against the catalog machine of
SqlExec.tla and compares the result with ExpectedCatalog(model)."""
from __future__ import annotations

import hashlib
import json
import os
import subprocess
import sys
from typing import Any, Dict, List

from . import core, tlc
from .surface import print_doc, enc

# vacuity guard (pv/census.py): what the judged models must have contained, per property
REQUIRED = {
    'C03': ['enum', 'enum.schema', 'col.type.qualified', 'col.type.suffix', 'table.schema', 'table.same_name_two_schemas', 'col.pk',
            'table.composite_pk_by_flags', 'col.unique', 'col.notnull', 'col.autoinc', 'col.default.int', 'col.default.float',
            'col.default.bool', 'col.default.str', 'col.default.expr', 'col.default.null', 'idx', 'idx.pk', 'idx.pk_between_others',
            'idx.unique', 'idx.type', 'idx.name', 'idx.expr', 'idx.composite', 'table.note', 'col.note', 'note.multiline'],
    'C04': ['ref.>', 'ref.<', 'ref.-', 'ref.<>', 'ref.name', 'ref.name.braces', 'ref.actions', 'ref.composite', 'col.inline_ref.>',
            'col.inline_ref.<', 'col.inline_ref.-', 'col.inline_ref.<>', 'col.two_inline_refs', 'table.schema', 'ref.comment'],
    'C18': ['col.inline_ref.>', 'col.inline_ref.<', 'col.inline_ref.-', 'ref.>', 'ref.<', 'enum', 'idx', 'table.note', 'col.note'],
}
CLAUSES = ['binding', 'readable', 'c03', 'c04', 'c18', 'c14', 'det']

_CHILD = r'''
import sys, json, hashlib
sys.path[:0] = [VERIF_DIR, REPO_DIR]
from pv.surface import print_doc
from pv import builder
from pydbml import PyDBML
out = {}
for it in reversed(json.load(sys.stdin)):      # opposite order: a rendering must not depend on what was rendered before
    try:
        if it['route'] == 'text':
            db = PyDBML(it['text'], allow_properties=it['allow'])
        elif it['route'] == 'parsed':
            db = PyDBML(print_doc(it['doc'], it['fseed'], it['pinned']), allow_properties=it['model']['allowprops'])
        elif it['route'].startswith('morphed'):
            db = builder.build_morphed(it['model'], it['route'].split(':')[1].split('+'))
        elif it['route'] == 'built_abstract':
            db = builder.build_abstract(it['model'])
        elif it['route'] == 'built_shared_notes':
            db = builder.build(it['model'], note_as_object='shared')
        elif it['route'] == 'built_stub':
            db = builder.build_stub(it['model'])[0]
        elif it['route'] == 'built_col_moved':
            db = builder.build_col_moved(it['model'])
        else:
            db = builder.build(it['model'])
        out[str(it['tid'])] = hashlib.sha1(db.sql.encode('utf8')).hexdigest()
    except Exception as ex:
        out[str(it['tid'])] = 'error:' + type(ex).__name__
json.dump(out, sys.stdout)
'''


def enc_deep(v):
    if isinstance(v, str):
        return enc(v)
    if isinstance(v, list):
        return [enc_deep(x) for x in v]
    if isinstance(v, dict):
        return {k: enc_deep(x) for k, x in v.items()}
    return v


def _exec_chunk(items):
    from . import project as pj, builder, ddl
    from pydbml import PyDBML
    out = []
    hashes = {}
    for it in items:
        m = it.get('model')
        rec = {'tid': it['tid'], 'model': m, 's0': {'kind': 'error', 'class': 'not-run'}, 'readerr': '', 'st': [], 'det': True}
        try:
            if it['route'] == 'text':
                db = PyDBML(it['text'], allow_properties=it['allow'])
                m = rec['model'] = pj.project_db(db)
            elif it['route'] == 'parsed':
                db = PyDBML(print_doc(it['doc'], it['fseed'], it['pinned']), allow_properties=m['allowprops'])
            elif it['route'].startswith('morphed'):
                db = builder.build_morphed(m, it['route'].split(':')[1].split('+'))
            elif it['route'] == 'built_abstract':
                db = builder.build_abstract(m)
            elif it['route'] == 'built_shared_notes':
                db = builder.build(m, note_as_object='shared')
            elif it['route'] == 'built_col_moved':
                db = builder.build_col_moved(m)
            elif it['route'] == 'built_stub':
                db, m = builder.build_stub(m)          # the content plus a table without columns (reachable through the API only)
                rec['model'] = m
            else:
                db = builder.build(m)
            rec['s0'] = pj.project_db(db)
        except Exception as ex:
            rec['s0'] = {'kind': 'error', 'class': pj.classify(ex)}
            out.append(rec)
            continue
        try:
            sql = db.sql
            rec['_sql'] = sql
            if db.sql != sql:
                rec['det'] = False
            hashes[str(it['tid'])] = hashlib.sha1(sql.encode('utf8')).hexdigest()
            rec['st'] = enc_deep(ddl.read(sql))
        except ddl.Unreadable as ex:
            rec['readerr'] = 'unreadable SQL: %s' % str(ex)[:300]
        except Exception as ex:
            rec['readerr'] = 'rendering raised %s: %s' % (type(ex).__name__, str(ex)[:200])
        if pj.project_db(db) != rec['s0']:
            rec['det'] = False          # rendering changed the model
        out.append(rec)
    # the same models rendered by another interpreter under another hash seed
    sub = [{k: it.get(k) for k in ('tid', 'route', 'doc', 'model', 'fseed', 'pinned', 'text', 'allow')} for it in items if str(it['tid']) in hashes]
    if sub:
        env = dict(os.environ)
        env['PYTHONHASHSEED'] = str(1 + (items[0]['tid'] % 4000))
        p = subprocess.run([sys.executable, '-B', '-c', 'VERIF_DIR = %r\nREPO_DIR = %r\n' % (core.VERIF, os.environ.get('VERIF_REPO', '/repo')) + _CHILD], input=json.dumps(sub), stdout=subprocess.PIPE,
                           stderr=subprocess.PIPE, env=env, text=True, timeout=600)
        if p.returncode != 0:
            raise core.Machinery('determinism child failed: %s' % p.stderr[-500:])
        other = json.loads(p.stdout)
        for rec in out:
            k = str(rec['tid'])
            if k in hashes and other.get(k) != hashes[k]:
                rec['det'] = False
    return out


def run_items(items: List[Dict[str, Any]], rep: core.Report, label: str):
    chunks = core.chunked(items, core.NCPU * 2)
    recs: List[Dict[str, Any]] = []
    for part in core.pmap(_exec_chunk, chunks):
        recs += part
    extra = {r['tid']: {k: r.pop(k) for k in list(r) if k.startswith('_')} for r in recs}
    verdicts, st = core.validate('TraceSql', 'TraceSql.cfg', recs)
    rep.add_val_stats('TraceSql ' + label, st)
    out = {}
    for r in recs:
        r.update(extra[r['tid']])
        out[r['tid']] = (dict(zip(CLAUSES, verdicts[r['tid']])), r)
    return out


def judge(prop: str, clauses: List[str], rep: core.Report, res, items, nontrivial):
    from . import census as cs
    known = {k['id'] for k in core.known_findings(prop)}
    cen = getattr(rep, 'census', None) or cs.Census()
    rep.census = cen
    seen_docs = set()
    for tid, (v, r) in res.items():
        it = items[tid]
        if v['binding'] != 'out-of-domain' and it.get('doc') and id(it['doc']) not in seen_docs:
            seen_docs.add(id(it['doc']))
            cen.add(cs.doc_tags(it['doc']))
        if v['binding'] == 'out-of-domain':
            rep.notes['out_of_domain'] = rep.notes.get('out_of_domain', 0) + 1
            continue
        rep.evaluations += 1
        stim = {k: it[k] for k in it if k != 'tid'}
        if v['binding']:
            rep.violation(stim, {'failing_clause': 'binding: ' + v['binding']})
            continue
        if v['readable']:
            rep.violation(stim, {'failing_clause': v['readable'], 'sql': r.get('_sql')})
            continue
        real = []
        for c in clauses:
            msg = v[c]
            if not msg:
                continue
            if msg.startswith('dev:') and msg[4:] in known:
                rep.known(msg[4:])
            else:
                real.append('%s: %s' % (c, msg))
        if real:
            rep.violation(stim, {'failing_clause': '; '.join(real), 'sql': r.get('_sql')})
        else:
            rep.traces_ok += 1
            if it.get('model') is None or nontrivial(it):        # (a corpus document: real content)
                rep.mark_nontrivial([it['seed'], it['route'], it.get('variant')])


def replay(prop: str, clauses: List[str], path: str) -> int:
    core.setup_env()
    v = json.load(open(path))
    it = dict(v['stimulus'])
    it['tid'] = 1
    rep = core.Report(prop, 'replay')
    res = run_items([it], rep, 'replay')
    verdict, r = res[1]
    print(r.get('_sql'))
    print('verdict: %r' % verdict)
    known = {k['id'] for k in core.known_findings(prop)}
    bad = [verdict[c] for c in ['binding', 'readable'] + clauses
           if verdict[c] and not (verdict[c].startswith('dev:') and verdict[c][4:] in known)]
    if bad:
        print('VIOLATION property=%s replay=%s' % (prop, path))
        return 1
    return 0


def standard_main(prop: str, clauses: List[str], technique: str, rule: str, nontrivial, seed_offset: int,
                  nq: int, nt: int, extra_items=None) -> int:
    from . import docs, doccheck
    argv = sys.argv[1:]
    try:
        if '--replay' in argv:
            return replay(prop, clauses, argv[argv.index('--replay') + 1])
        rep = core.Report(prop, technique)
        rep.rule = rule
        rep.assumptions = ['the DDL reader pv/ddl.py is independent of PyDBML and refuses text it cannot read',
                           'string defaults are single-line (SQL writes them bare); types, defaults and expressions are compared as raw text']
        n = doccheck.budget(nq, nt)
        lo = core.seed() * 100000 + seed_offset
        items: Dict[int, Dict[str, Any]] = {}
        tid = 0
        ms = docs.gen_models(lo, lo + n - 1, False, True, rep)
        for seed, dm in ms:
            # morphed: built from another content, rendered, then edited in place into this one (pv/builder.py)
            for route in ('parsed', ('built_abstract', 'built', 'built_shared_notes', 'built_stub', 'built_col_moved')[seed % 5],
                          'morphed:' + ('names', 'types', 'settings', 'refs', 'names+types+settings+refs')[seed % 5]):
                tid += 1
                items[tid] = {'tid': tid, 'route': route, 'doc': dm['doc'], 'model': dm['model'], 'fseed': None, 'pinned': {},
                              'seed': seed}
        # the exhaustive per-element feature products (GenProduct.tla), parsed and built
        pm = docs.product_models(rep, scale=0.5)
        for pid, dm in pm:
            for route in ('parsed', 'built'):
                tid += 1
                items[tid] = {'tid': tid, 'route': route, 'doc': dm['doc'], 'model': dm['model'], 'fseed': None, 'pinned': {}, 'seed': pid}
        rep.notes['product_models'] = len(pm)
        # real documents (pv/corpus.py); a note containing a single quote or a backslash is left to C13's sql route (the
        # neutralisation of quotes is specified character by character there; SqlExec!SqlText knows the pool texts only)
        from . import corpus
        ncorp = 0
        for s in corpus.sources(rep):
            if "'''" in s['text'] or '\\' in s['text'] or "\\'" in s['text'] or any(ln.count("'") % 2 or ("'" in ln and 'note' in ln.lower() and ln.count("'") > 2) for ln in s['text'].split('\n')):
                continue
            tid += 1
            ncorp += 1
            items[tid] = {'tid': tid, 'route': 'text', 'text': s['text'], 'allow': s['allow'], 'doc': None, 'model': None, 'fseed': None, 'pinned': {},
                          'seed': s['origin']}
        rep.notes['corpus_documents_rendered_to_sql'] = ncorp
        if extra_items:
            for it in extra_items(rep):
                tid += 1
                it['tid'] = tid
                items[tid] = it
        res = run_items(list(items.values()), rep, prop)
        judge(prop, clauses, rep, res, items, nontrivial)
        rep.notes['models'] = len(ms)
        rep.census.require(prop, REQUIRED.get(prop, []), rep, 'models rendered to SQL')
        t0 = next(iter(items))
        rep.samples.append({'seed': items[t0]['seed'], 'route': items[t0]['route'], 'sql': (res[t0][1].get('_sql') or '')[:1500],
                            'verdict': res[t0][0]})
        return rep.finish()
    except (core.Machinery, tlc.TlcFailure) as ex:
        print('MACHINERY-FAILURE %s: %s' % (prop, ex), file=sys.stderr)
        return 2
