"""C18 -- SQL creates a table before any table that references it inline.

The property is the ENABLEDNESS of CreateTable in SqlExec.tla: an inline FOREIGN KEY clause may
only reference a table created by an earlier statement (or the table itself).  The created tables
must be exactly the database's tables, once each (clause shared with C03), and the text must be a
function of the model (rendered twice, and in another interpreter with another hash seed).
As built (finding F-C18) tables are ordered key-holders-first by a counting heuristic; SqlExec!
AsBuiltOrder predicts that order exactly, so any OTHER misplacement is still a violation."""
import sys
from . import sqlcheck

if __name__ == '__main__':
    sys.exit(sqlcheck.standard_main(
        'C18', ['c18', 'det'],
        'TLC-generated models rendered to SQL by /repo; DDL reader; TraceSql.tla checks that every CREATE TABLE with inline FOREIGN KEY '
        'clauses is enabled in statement order (acyclic inline graphs), and determinism across interpreters and hash seeds',
        'case = (model seed, route in {parsed, built, morphed = built from other content, rendered, edited in place}); non-trivial = the model has >= 1 inline reference',
        lambda it: any(r['inline'] for r in it['model']['refs']), 95001, 350, 6000))
