"""selftest only: a 'check' that lets an exception escape from inside the package under test (see pv/run.py)."""
if __name__ == '__main__':
    from pydbml import PyDBML
    PyDBML('Table t {\n  id int\n}\nRef: t.id > missing.id\n')       # TableNotFoundError, raised in pydbml/parser, not caught here
