"""Projection: a real pydbml Database -> the model record of Doc.tla (as JSON).

Only public attributes are read.  Every link (reference endpoint, index subject, enum-typed
column, group item) is resolved by object IDENTITY to a position in the database's own lists;
0 means "not the object the container holds".  `links` carries the back-pointers and the results
of the lookup / query API, again as positions.
"""
from __future__ import annotations

from typing import Any, Dict, List

from .surface import enc


def _idx(seq, obj) -> int:
    for i, x in enumerate(seq):
        if x is obj:
            return i + 1
    return 0


def _s(v) -> str:
    return '' if v is None else enc(str(v))


def _c(v) -> str:
    """comment text, line-wise with surrounding blanks trimmed (the observation rule of C14)"""
    if v is None:
        return ''
    return enc('\n'.join(ln.strip() for ln in str(v).split('\n')))


def _default(v) -> Dict[str, str]:
    from pydbml.classes import Expression
    if v is None:
        return {'k': 'none', 'v': ''}
    if isinstance(v, bool):
        return {'k': 'bool', 'v': 'true' if v else 'false'}
    if isinstance(v, int):
        return {'k': 'int', 'v': str(v)}
    if isinstance(v, float):
        return {'k': 'float', 'v': repr(v)}
    if isinstance(v, Expression):
        return {'k': 'expr', 'v': enc(v.text)}
    if isinstance(v, str):
        return {'k': 'str', 'v': enc(v)}
    return {'k': 'other:' + type(v).__name__, 'v': enc(repr(v))}


def _note(n) -> str:
    if n is None:
        return ''
    return enc(getattr(n, 'text', str(n)) or '')


def _props(p) -> List[List[str]]:
    return [[enc(str(k)), enc(str(v))] for k, v in (p or {}).items()]


def _table_pos(db, col) -> int:
    """position of the table that holds this very column object"""
    for ti, t in enumerate(db.tables):
        for c in t.columns:
            if c is col:
                return ti + 1
    return 0


def project_db(db) -> Dict[str, Any]:
    from pydbml.classes import Column, Enum, Expression
    tables = []
    for t in db.tables:
        cols = []
        for c in t.columns:
            if isinstance(c.type, Enum):
                ty = {'k': 'enum', 'e': _idx(db.enums, c.type)}
            else:
                ty = {'k': 'str', 'v': enc(str(c.type))}
            cols.append({'name': _s(c.name), 'type': ty, 'pk': bool(c.pk), 'unique': bool(c.unique),
                         'notnull': bool(c.not_null), 'autoinc': bool(c.autoinc),
                         'default': _default(c.default), 'note': _note(c.note),
                         'props': _props(c.properties), 'comment': _c(c.comment)})
        idxs = []
        for x in t.indexes:
            subj = []
            for sj in x.subjects:
                if isinstance(sj, Column):
                    subj.append({'k': 'col', 'i': _idx(t.columns, sj)})
                elif isinstance(sj, Expression):
                    subj.append({'k': 'expr', 'v': enc(sj.text)})
                else:
                    subj.append({'k': 'raw', 'v': enc(str(sj))})
            idxs.append({'subj': subj, 'name': _s(x.name), 'unique': bool(x.unique), 'pk': bool(x.pk),
                         'type': _s(x.type), 'note': _note(x.note), 'comment': _c(x.comment)})
        tables.append({'schema': _s(t.schema), 'name': _s(t.name), 'alias': _s(t.alias),
                       'color': _s(t.header_color), 'note': _note(t.note), 'props': _props(t.properties),
                       'comment': _c(t.comment), 'cols': cols, 'idxs': idxs})
    enums = [{'schema': _s(e.schema), 'name': _s(e.name), 'comment': _c(e.comment),
              'items': [{'name': _s(i.name), 'note': _note(i.note), 'comment': _c(i.comment)} for i in e.items]}
             for e in db.enums]
    refs = []
    for r in db.refs:
        t1 = _table_pos(db, r.col1[0]) if r.col1 else 0
        t2 = _table_pos(db, r.col2[0]) if r.col2 else 0
        refs.append({'type': _s(r.type), 'name': _s(r.name), 'onupdate': _s(r.on_update), 'ondelete': _s(r.on_delete),
                     'comment': _c(r.comment), 'inline': bool(r.inline),
                     't1': t1, 'c1': [_idx(db.tables[t1 - 1].columns, c) if t1 else 0 for c in r.col1],
                     't2': t2, 'c2': [_idx(db.tables[t2 - 1].columns, c) if t2 else 0 for c in r.col2]})
    groups = [{'name': _s(g.name), 'items': [_idx(db.tables, i) for i in g.items], 'note': _note(g.note),
               'color': _s(g.color), 'comment': _c(g.comment)} for g in db.table_groups]
    notes = [{'name': _s(n.name), 'text': enc(n.text or '')} for n in db.sticky_notes]
    p = db.project
    project = ({'present': False, 'name': '', 'items': [], 'note': '', 'comment': ''} if p is None else
               {'present': True, 'name': _s(p.name), 'items': _props(p.items), 'note': _note(p.note),
                'comment': _c(p.comment)})
    return {'kind': 'db', 'tables': tables, 'enums': enums, 'refs': refs, 'groups': groups, 'notes': notes,
            'project': project, 'allowprops': bool(db.allow_properties)}


def _safe(f, default):
    try:
        return f()
    except Exception as ex:               # an observer that raises is itself an observation
        return default(ex) if callable(default) else default


def project_links(db) -> Dict[str, Any]:
    """Back-pointers and the results of the lookup/query API, by identity."""
    from pydbml.renderer.sql.default.table import get_references_for_sql
    T = db.tables

    def refpos(lst):
        return [_idx(db.refs, r) for r in lst]
    L: Dict[str, Any] = {}
    L['tdb'] = [t.database is db for t in T]
    L['cown'] = [[c.table is t for c in t.columns] for t in T]
    L['cnote'] = [[getattr(c.note, 'parent', None) is c for c in t.columns] for t in T]
    L['tnote'] = [getattr(t.note, 'parent', None) is t for t in T]
    L['iown'] = [[x.table is t for x in t.indexes] for t in T]
    L['inote'] = [[getattr(x.note, 'parent', None) is x for x in t.indexes] for t in T]
    L['edb'] = [e.database is db for e in db.enums]
    L['enote'] = [[getattr(i.note, 'parent', None) is i for i in e.items] for e in db.enums]
    L['gdb'] = [g.database is db for g in db.table_groups]
    L['gnote'] = [g.note is None or getattr(g.note, 'parent', None) is g for g in db.table_groups]      # (an empty note is a note)
    L['rdb'] = [r.database is db for r in db.refs]
    L['ndb'] = [n.database is db for n in db.sticky_notes]
    L['pdb'] = db.project is None or db.project.database is db
    L['pnote'] = db.project is None or getattr(db.project.note, 'parent', None) is db.project
    L['iter'] = _safe(lambda: [_idx(T, t) for t in db], [-1])
    L['pos'] = [_safe(lambda i=i: _idx(T, db[i]), -1) for i in range(len(T))]
    L['full'] = [_safe(lambda t=t: _idx(T, db[t.full_name]), -1) for t in T]
    L['alias'] = [(_safe(lambda t=t: _idx(T, db[t.alias]), -1) if t.alias else 0) for t in T]
    L['getrefs'] = [_safe(lambda t=t: refpos(t.get_refs()), [-1]) for t in T]
    L['sqlrefs'] = [_safe(lambda t=t: refpos(get_references_for_sql(t)), [-1]) for t in T]
    L['colrefs'] = [[_safe(lambda c=c: refpos(c.get_refs()), [-1]) for c in t.columns] for t in T]
    L['cdb'] = [[c.database is db for c in t.columns] for t in T]
    # iteration and positional access of the other containers
    L['eiter'] = [_safe(lambda e=e: [x is y for x, y in zip(list(e), e.items)] == [True] * len(e.items) and all(e[i] is e.items[i] for i in range(len(e.items))), False) for e in db.enums]
    L['giter'] = [_safe(lambda g=g: [x is y for x, y in zip(list(g), g.items)] == [True] * len(g.items) and all(g[i] is g.items[i] for i in range(len(g.items))), False) for g in db.table_groups]
    L['titer'] = [_safe(lambda t=t: [x is y for x, y in zip(list(t), t.columns)] == [True] * len(t.columns), False) for t in T]
    return L


EMPTY_LINKS = {k: [] for k in ('tdb', 'cown', 'cnote', 'tnote', 'iown', 'inote', 'edb', 'enote', 'gdb', 'gnote',
                               'rdb', 'ndb', 'iter', 'pos', 'full', 'alias', 'getrefs', 'sqlrefs', 'colrefs', 'cdb', 'eiter', 'giter', 'titer')}
EMPTY_LINKS.update({'pdb': True, 'pnote': True})


def classify(ex: BaseException) -> str:
    import pyparsing
    if isinstance(ex, pyparsing.ParseBaseException):
        return 'ParseBaseException'
    return type(ex).__name__


def _parse_via(text: str, allow: bool, via: str):
    from pydbml import PyDBML
    kw = {'allow_properties': True} if allow else {}
    if via == 'str':
        return PyDBML(text, **kw)
    import os
    import tempfile
    from pathlib import Path
    fd, fn = tempfile.mkstemp(suffix='.dbml', prefix='pv_via_')
    try:
        with os.fdopen(fd, 'w', encoding='utf8', newline='') as f:
            f.write(text)
        if via == 'path':
            return PyDBML(Path(fn), **kw)
        with open(fn, encoding='utf8', newline='') as f:
            return PyDBML(f, **kw)
    finally:
        os.unlink(fn)


def parse_and_project(text: str, allow: bool = False, links: bool = True, via: str = 'str'):
    """-> (result record, links record, db or None); via = how the text is handed to the constructor (str, path, file)"""
    try:
        db = _parse_via(text, allow, via)
    except Exception as ex:
        return {'kind': 'error', 'class': classify(ex)}, EMPTY_LINKS, None
    return project_db(db), (project_links(db) if links else EMPTY_LINKS), db
