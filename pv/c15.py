"""C15 -- arbitrary properties are honoured exactly when enabled (parsing side, and neutrality).

GenDoc.tla generates documents with and without `key: 'value'` properties on tables and columns
(WithProps); each is printed in several forms (one-line and multi-line settings lists, property
first/middle/last, next to notes and the index block) and parsed by /repo with the option on and
off.  TLC compares: option on -> Doc!ParseDoc(doc, TRUE) (keys, values, order, owner,
allow_properties set); option off -> syntax error iff the document uses property syntax; for a
property-free document both parses agree and so do `.dbml` and `.sql` (DesignOptionNeutral is the
design-level statement).  The render-time clauses (flag flips, round trip of properties) are
decided by the DBML round-trip machinery (see pv/c02.py, clause `props`)."""
from __future__ import annotations

from typing import List

from . import core, docs, doccheck


def uses_props(doc) -> bool:
    return any(d['d'] == 'table' and (d['props'] or any(c['props'] for c in d['cols'])) for d in doc)


def main(argv: List[str]) -> int:
    rep = core.Report('C15', 'TLC-generated documents with/without properties parsed by /repo under both option values; '
                             'TLC compares with Doc!ParseDoc(doc, TRUE/FALSE) and requires neutrality for property-free documents')
    rep.rule = ('case = (document seed, with/without properties, surface form); both option values are exercised in every '
                'case; non-trivial = the document carries a property, or it is property-free and both renderings were compared')
    rep.assumptions = ['pv/surface.py prints only admissible spellings', 'property keys are taken from a pool that avoids setting keywords']
    n = doccheck.budget(150, 2500)
    nrand = doccheck.budget(3, 8)
    lo = core.seed() * 100000 + 30001
    items = {}
    tid = 0
    for with_props in (True, False):
        ds = docs.gen_docs(lo, lo + n - 1, with_props, rep)
        for seed, doc in ds:
            plan = docs.form_plan(nrand, False, seed) + [(None, {'settings_layout': 'multiline'}), (None, {'settings_layout': 'loose'}),
                                                           (None, {'settings_order': 'reversed'}), (None, {'note_pos': 'first'})]
            for fseed, pinned in plan:
                tid += 1
                # (the option must be honoured however the text is handed over: as a string, a Path, an open file)
                items[tid] = {'tid': tid, 'doc': doc, 'allow': True, 'want': 'props', 'fseed': fseed, 'pinned': pinned,
                              'seed': seed, 'gen': 'RandDocP', 'variant': with_props, 'via': ('str', 'path', 'file')[tid % 3]}
    res = docs.run_items(list(items.values()), rep, 'C15')
    doccheck.judge('C15', rep, res, items, lambda it: True)
    from . import census
    rep.census.require('C15', ['table.props', 'col.props', 'table.props+note', 'table.note', 'col.note', 'idx', 'doc.tableless'], rep, 'parse-side documents')
    # render side: properties are shown iff the database's flag is set AT RENDER TIME, whatever it was before, and they
    # survive the round trip (TraceDbml clauses `content` and `props`)
    from . import render, c02
    import copy
    ms = docs.gen_models(lo + 40000, lo + 40000 + doccheck.budget(120, 2000) - 1, True, False, rep)
    ritems = {}
    for seed, dm in ms:
        for flips in ([], [False], [False, True], [True, False, True, False], 'moved'):
            m = copy.deepcopy(dm['model'])
            if flips == 'moved':
                # built and rendered in a database with the other flag, then moved into one with this flag (alternately on / off)
                m['allowprops'] = seed % 2 == 0
                tid += 1
                ritems[tid] = {'tid': tid, 'route': 'moved', 'doc': dm['doc'], 'model': m, 'fseed': None, 'pinned': {}, 'seed': seed,
                               'flips': [], 'variant': 'moved'}
                continue
            if flips:
                m['allowprops'] = flips[-1]
            tid += 1
            ritems[tid] = {'tid': tid, 'route': 'built', 'doc': dm['doc'], 'model': m, 'fseed': None, 'pinned': {}, 'seed': seed,
                           'flips': flips, 'variant': 'flips %s' % flips}
    rres = render.run_items(list(ritems.values()), rep, 'C15 render')
    c02.judge('C15', ['props'], rep, rres, ritems, lambda it: uses_props(it['doc']))
    rep.notes['render_side_cases'] = len(ritems)
    rep.notes['with_properties'] = sum(1 for it in items.values() if uses_props(it['doc']))
    for tid in list(items)[:2]:
        v, r = res[tid]
        rep.samples.append({'seed': items[tid]['seed'], 'text': r.get('text', '')[:1200], 'option_off': r.get('obs', {}).get('off'), 'verdict': v})
    return rep.finish()


if __name__ == '__main__':
    doccheck.main_wrapper('C15', main)
