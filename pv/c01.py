"""C01 -- parsing is faithful: the Database holds exactly what the document declares, whatever
admissible surface form the document is written in.

TLC generates abstract documents (GenDoc.tla: seeded whole documents; design-level properties
NothingDropped/Linked/OptionNeutral checked on each), the harness prints every document in the
canonical form, in every single-dimension variation of it and in seeded random combinations,
parses the text with /repo and projects the Database; TLC (TraceDoc.tla) compares the projection
with Doc!ParseDoc(doc), field by field."""
from __future__ import annotations

from typing import List

from . import core, docs, doccheck


def main(argv: List[str]) -> int:
    rep = core.Report('C01', 'TLC-generated abstract documents (GenDoc.tla) printed in swept and random surface forms, '
                             'parsed by /repo, projection compared by TLC with Doc!ParseDoc (TraceDoc.tla)')
    rep.rule = ('case = (document seed, surface form); forms = canonical + every single form dimension at every value '
                '+ seeded random combinations; distinct by (seed, form); non-trivial = the document uses >= 1 optional '
                'feature or the form is not the canonical one')
    rep.assumptions = ['the concretiser pv/surface.py prints only spellings DBML admits (DESIGN 4.3)',
                       'the projection pv/project.py reads public attributes only',
                       'floats and integers are generated in canonical spelling only (TLC has no floats)']
    ndocs = doccheck.budget(250, 4000)
    nrand = doccheck.budget(4, 10)
    lo = core.seed() * 100000 + 1
    ds = docs.gen_docs(lo, lo + ndocs - 1, False, rep)
    items = {}
    tid = 0
    for seed, doc in ds:
        for fseed, pinned in docs.form_plan(nrand, True, seed):
            tid += 1
            items[tid] = {'tid': tid, 'doc': doc, 'allow': tid % 3 == 0, 'want': 'model', 'fseed': fseed, 'pinned': pinned,
                          'seed': seed, 'gen': 'RandDoc'}
    # per-element feature products (exhaustive in the thorough tier), each in the canonical and two random forms
    complete = True
    nprod = 0
    for fam in ('column', 'index', 'table', 'ref', 'enum', 'misc'):
        ps, full = docs.gen_products(fam, doccheck.budget(260, 10 ** 9), rep)
        complete = complete and full
        nprod += len(ps)
        for pid, doc in ps:
            for fseed, pinned in [(None, {}), (hash(pid) % 10 ** 6, {}), (hash(pid) % 10 ** 6 + 1, {})]:
                tid += 1
                items[tid] = {'tid': tid, 'doc': doc, 'allow': tid % 3 == 0, 'want': 'model', 'fseed': fseed, 'pinned': pinned,
                              'seed': pid, 'gen': 'GenProduct'}
    rep.notes['product_documents'] = nprod
    # a comment is no declaration, whatever it contains or ends in: each document once more with one comment line somewhere
    for seed, doc in ds:
        tid += 1
        text = ['// path C:\\temp\\', '// ends in a backslash \\', '/* block **/', '// \\'][seed % 4]
        items[tid] = {'tid': tid, 'doc': doc, 'allow': False, 'want': 'inert', 'fseed': seed, 'pinned': {}, 'seed': seed, 'gen': 'RandDoc',
                      'noise': [['own', (seed * 7919) % 997, text]], 'variant': 'one comment'}
    rep.notes['products_complete'] = complete
    res = docs.run_items(list(items.values()), rep, 'C01')
    doccheck.judge('C01', rep, res, items,
                   lambda it: docs.doc_features(it['doc']) > 0 or it['fseed'] is not None or bool(it['pinned']))
    from . import census
    rep.census.require('C01', census.BASE + ['idx.pk_between_others', 'col.two_inline_refs', 'table.case_variant_siblings', 'ref.name.braces',
                                            'col.type.public_explicit', 'table.schema_public_explicit'], rep)
    rep.notes['documents'] = len(ds)
    rep.notes['forms_per_document'] = len(docs.form_plan(nrand, True, 0))
    for tid in list(items)[:2]:
        v, r = res[tid]
        rep.samples.append({'seed': items[tid]['seed'], 'form': [items[tid]['fseed'], items[tid]['pinned']],
                            'text': r.get('text', '')[:1500], 'verdict': v})
    return rep.finish()


if __name__ == '__main__':
    doccheck.main_wrapper('C01', main)
