"""Running TLC and reading what it prints."""
from __future__ import annotations

import json
import os
import re
import shutil
import subprocess
import tempfile
import time
from dataclasses import dataclass, field
from typing import Dict, List, Optional

from . import tla

SPEC_DIR = os.path.join(os.path.dirname(os.path.dirname(os.path.abspath(__file__))), 'spec')
JAR = '/opt/veriftools/tla/tla2tools.jar:/opt/veriftools/tla/CommunityModules-deps.jar'


class TlcFailure(Exception):
    """TLC itself failed (parse error, crash, timeout): machinery failure, never a property verdict."""


@dataclass
class TlcResult:
    rc: int
    out: str
    generated: int = 0
    distinct: int = 0
    depth: int = 0
    wall_s: float = 0.0
    prints: List[object] = field(default_factory=list)   # parsed PrintT values
    violated: Optional[str] = None       # name of a violated invariant/property, if any
    error: Optional[str] = None          # other TLC error text
    coverage: Dict[str, int] = field(default_factory=dict)
    cmd: str = ''


_scratch_root: Optional[str] = None


def scratch() -> str:
    """One scratch directory per process, outside /repo and /verif, removed at exit."""
    global _scratch_root
    if _scratch_root is None:
        _scratch_root = tempfile.mkdtemp(prefix='pv_')
        import atexit
        atexit.register(lambda: shutil.rmtree(_scratch_root, ignore_errors=True))
    return _scratch_root


def new_dir(prefix: str) -> str:
    return tempfile.mkdtemp(prefix=prefix + '_', dir=scratch())


_GEN = re.compile(r'(\d+) states generated, (\d+) distinct states found')
_DEPTH = re.compile(r'The depth of the complete state graph search is (\d+)')
_INV = re.compile(r'Error: Invariant (\S+) is violated')
_PROP = re.compile(r'Error: Action property (\S+) is violated|Error: Temporal properties were violated')
_COV = re.compile(r'^<(\w+) line \d+, col \d+ to line \d+, col \d+ of module (\w+)>: (\d+):(\d+)', re.M)


def run(module: str,
        cfg: Optional[str] = None,
        cfg_text: Optional[str] = None,
        workers: int = 16,
        simulate: Optional[str] = None,
        depth: Optional[int] = None,
        seed: Optional[int] = None,
        dump: Optional[str] = None,
        env: Optional[Dict[str, str]] = None,
        coverage: bool = False,
        timeout: int = 3600,
        deadlock: bool = False,
        heap: str = '8g',
        extra: Optional[List[str]] = None,
        spec_dir: Optional[str] = None) -> TlcResult:
    """Run TLC on spec/<module>.tla.  cfg: file name in the spec dir; cfg_text: literal config."""
    spec_dir = spec_dir or SPEC_DIR
    work = new_dir('tlc')
    if cfg_text is not None:
        cfg_path = os.path.join(work, module + '.cfg')
        with open(cfg_path, 'w') as f:
            f.write(cfg_text)
    else:
        cfg_path = os.path.join(spec_dir, cfg or (module + '.cfg'))
    cmd = ['java', '-XX:+UseParallelGC', '-Xss64m', '-Xmx' + heap, '-DTLA-Library=' + SPEC_DIR, '-cp', JAR, 'tlc2.TLC',
           '-workers', str(workers), '-metadir', os.path.join(work, 'meta'), '-noGenerateSpecTE',
           '-config', cfg_path]
    if not deadlock:
        cmd.append('-deadlock')          # TLC flag: do NOT check for deadlock
    if simulate is not None:
        cmd += ['-simulate', simulate]
    if depth is not None:
        cmd += ['-depth', str(depth)]
    if seed is not None:
        cmd += ['-seed', str(seed)]
    if dump is not None:
        cmd += ['-dump', dump]
    if coverage:
        cmd += ['-coverage', '1']
    if extra:
        cmd += extra
    cmd.append(os.path.join(spec_dir, module + '.tla'))
    e = dict(os.environ)
    e.pop('JAVA_TOOL_OPTIONS', None)
    if env:
        e.update(env)
    t0 = time.time()
    try:
        p = subprocess.run(cmd, cwd=work, env=e, stdout=subprocess.PIPE, stderr=subprocess.STDOUT,
                           timeout=timeout, text=True, errors='replace')
    except subprocess.TimeoutExpired as ex:
        raise TlcFailure('TLC timed out after %ss: %s' % (timeout, ' '.join(cmd))) from ex
    res = TlcResult(rc=p.returncode, out=p.stdout, wall_s=time.time() - t0, cmd=' '.join(cmd))
    for m in _GEN.finditer(p.stdout):
        res.generated, res.distinct = int(m.group(1)), int(m.group(2))
    m = _DEPTH.search(p.stdout)
    if m:
        res.depth = int(m.group(1))
    m = _INV.search(p.stdout)
    if m:
        res.violated = m.group(1)
    else:
        m = _PROP.search(p.stdout)
        if m:
            res.violated = m.group(1) or 'temporal'
    if res.violated is None and (re.search(r'^Error:', p.stdout, re.M) or p.returncode not in (0,)):
        em = re.search(r'^Error:.*(?:\n.*){0,12}', p.stdout, re.M)
        res.error = em.group(0) if em else 'rc=%d' % p.returncode
    for m in _COV.finditer(p.stdout):
        res.coverage[m.group(2) + '!' + m.group(1)] = res.coverage.get(m.group(2) + '!' + m.group(1), 0) + int(m.group(3))
    res.prints = list(_prints(p.stdout))
    shutil.rmtree(os.path.join(work, 'meta'), ignore_errors=True)
    return res


_PSTART = re.compile(r'^<<\s*"', re.M)


def _prints(out: str):
    """PrintT values are TLA+ tuples starting with a string tag: <<"TAG", ...>>; TLC pretty-prints
    long ones over several lines."""
    n = len(out)
    pos = 0
    while True:
        m = _PSTART.search(out, pos)
        if not m:
            return
        j = m.start()
        depth = 0
        k = j
        in_str = False
        while k < n:
            ch = out[k]
            if in_str:
                if ch == '\\':
                    k += 1
                elif ch == '"':
                    in_str = False
            else:
                if ch == '"':
                    in_str = True
                elif out.startswith('<<', k):
                    depth += 1
                    k += 1
                elif out.startswith('>>', k):
                    depth -= 1
                    k += 1
                    if depth == 0:
                        break
            k += 1
        txt = out[j:k + 1]
        try:
            yield tla.parse_value(txt)
        except tla.TlaParseError:
            pass
        pos = k + 1


def run_sharded(module: str, cfg_of, lo: int, hi: int, shards: int = 16, **kw) -> TlcResult:
    """Run a seed-range generator as several TLC processes over sub-ranges (TLC evaluates the
    invariants of initial states on one thread); cfg_of(lo, hi) -> config text.  Results are merged."""
    import concurrent.futures as cf
    n = hi - lo + 1
    shards = max(1, min(shards, n // 8 or 1))
    step = (n + shards - 1) // shards
    ranges = [(a, min(a + step - 1, hi)) for a in range(lo, hi + 1, step)]
    with cf.ThreadPoolExecutor(max_workers=len(ranges)) as ex:
        results = list(ex.map(lambda r: run(module, cfg_text=cfg_of(r[0], r[1]), workers=2, heap='2g', **kw), ranges))
    out = results[0]
    for r in results[1:]:
        out.generated += r.generated
        out.distinct += r.distinct
        out.prints += r.prints
        out.wall_s = max(out.wall_s, r.wall_s)
        out.violated = out.violated or r.violated
        out.error = out.error or r.error
        if r.violated or r.error:
            out.out += r.out
        out.rc = out.rc or r.rc
    return out


def require_ok(res: TlcResult, what: str) -> TlcResult:
    if res.error or res.rc != 0 and res.violated is None:
        raise TlcFailure('%s: TLC failed: %s\n%s' % (what, res.error, res.out[-3000:]))
    return res


def decode_json_print(v):
    """PrintT(<<"TAG", ToJson(x)>>) -> x"""
    return json.loads(v)


def sany(module_path: str) -> bool:
    p = subprocess.run(['java', '-DTLA-Library=' + SPEC_DIR, '-cp', JAR, 'tla2sany.SANY', module_path],
                       stdout=subprocess.PIPE, stderr=subprocess.STDOUT, text=True, cwd=scratch())
    return p.returncode == 0 and 'Error' not in p.stdout and 'error' not in p.stdout.lower().replace('errors: 0', '')
