"""Vacuity guard: what the judged stimuli actually contained.

A check that passes because its generator never produced the thing a clause speaks about has decided nothing.  `doc_tags`
names the features present in one abstract document (GenDoc/Doc.tla format); a check accumulates the tags of the documents
it JUDGED and `require` turns a missing tag into a machinery failure (exit 2: never a property verdict), so a later change
to a pool or generator that silently removes a feature is noticed at once.  The census is written to the evidence file."""
from __future__ import annotations

from typing import Any, Dict, Iterable, List, Set

from . import core


def _multi(s: str) -> bool:
    return '\n' in s


def doc_tags(doc: List[Dict[str, Any]]) -> Set[str]:
    t: Set[str] = set()
    if not any(d['d'] == 'table' for d in doc):
        t.add('doc.tableless')
    if not doc:
        t.add('doc.empty')
    names = [(d.get('schema') or 'public', d['name']) for d in doc if d['d'] == 'table']
    if len({n for _, n in names}) < len(names):
        t.add('table.same_name_two_schemas')
    if any(a.lower() == b.lower() and a != b for _, a in names for _, b in names):
        t.add('table.case_variant_siblings')
    kinds = [d['d'] for d in doc]
    if 'ref' in kinds and 'table' in kinds and kinds.index('ref') < kinds.index('table'):
        t.add('ref.before_its_tables')
    inline_seen = False
    for d in doc:
        k = d['d']
        t.add(k)
        if d.get('comment'):
            t.add(k + '.comment')
            if _multi(d['comment']):
                t.add('comment.multiline')
            if '\n\n' in d['comment']:
                t.add('comment.empty_line')
        if k == 'table':
            for f in ('alias', 'note', 'color'):
                if d[f]:
                    t.add('table.' + f)
            if d['schema'] not in ('', 'public'):
                t.add('table.schema')
            if d['schema'] == 'public':
                t.add('table.schema_public_explicit')
            if d['props']:
                t.add('table.props')
                if d['note']:
                    t.add('table.props+note')
            if d['note'] and _multi(d['note']):
                t.add('note.multiline')
            cn = [c['name'] for c in d['cols']]
            if any(a.lower() == b.lower() and a != b for a in cn for b in cn):
                t.add('col.case_variant_siblings')
            for c in d['cols']:
                for f in ('pk', 'unique', 'notnull', 'autoinc'):
                    if c[f]:
                        t.add('col.' + f)
                t.add('col.default.' + c['default']['k'])
                if c['note']:
                    t.add('col.note')
                    if _multi(c['note']):
                        t.add('col.note.multiline')
                if c['props']:
                    t.add('col.props')
                if c['comment']:
                    t.add('col.comment')
                ty = c['type']
                if ty.get('schema'):
                    t.add('col.type.qualified')
                    if ty['schema'] == 'public':
                        t.add('col.type.public_explicit')
                if ty.get('suffix'):
                    t.add('col.type.suffix')
                if c['refs']:
                    inline_seen = True
                    t.add('col.inline_ref')
                    for r in c['refs']:
                        t.add('col.inline_ref.' + r['type'])
                    if len(c['refs']) > 1:
                        t.add('col.two_inline_refs')
            if sum(1 for c in d['cols'] if c['pk']) > 1:
                t.add('table.composite_pk_by_flags')
            pkpos = [i for i, x in enumerate(d['idxs']) if x['pk']]
            if pkpos and 0 < pkpos[0] < len(d['idxs']) - 1:
                t.add('idx.pk_between_others')
            for x in d['idxs']:
                t.add('idx')
                for f in ('pk', 'unique'):
                    if x[f]:
                        t.add('idx.' + f)
                for f in ('type', 'name', 'note', 'comment'):
                    if x[f]:
                        t.add('idx.' + f)
                if any(s['k'] == 'expr' for s in x['subj']):
                    t.add('idx.expr')
                if len(x['subj']) > 1:
                    t.add('idx.composite')
        elif k == 'enum':
            if d['schema'] not in ('', 'public'):
                t.add('enum.schema')
            for i in d['items']:
                if i['note']:
                    t.add('enum.item.note')
                if i['comment']:
                    t.add('enum.item.comment')
        elif k == 'ref':
            t.add('ref.' + d['type'])
            if d['name']:
                t.add('ref.name')
                if '{' in d['name'] or '}' in d['name']:
                    t.add('ref.name.braces')
            if d['onupdate'] or d['ondelete']:
                t.add('ref.actions')
            if len(d['left']['cols']) > 1:
                t.add('ref.composite')
            if inline_seen:
                t.add('ref.standalone_after_inline')
        elif k == 'group':
            t.add('group.items' if d['items'] else 'group.empty')
            for f in ('note', 'color'):
                if d[f]:
                    t.add('group.' + f)
        elif k == 'sticky':
            t.add('sticky.empty' if not d['text'] else 'sticky.text')
            if _multi(d['text']):
                t.add('sticky.multiline')
            if '\n\n\n' in d['text']:
                t.add('text.two_empty_lines')
        elif k == 'project':
            if d['items']:
                t.add('project.items')
            if d['note']:
                t.add('project.note')
    notes = [d['note'] for d in doc if d['d'] in ('table', 'group', 'project') and d.get('note')]
    notes += [c['note'] for d in doc if d['d'] == 'table' for c in d['cols'] if c['note']]
    if len(notes) > len(set(notes)):
        t.add('note.equal_twins')
    gn = [d['note'] for d in doc if d['d'] == 'group' and d['note']]
    if len(gn) > len(set(gn)):
        t.add('group.note.equal_twins')
    return t


class Census:
    def __init__(self):
        self.count: Dict[str, int] = {}

    def add(self, tags: Iterable[str]):
        for x in tags:
            self.count[x] = self.count.get(x, 0) + 1

    def require(self, prop: str, tags: Iterable[str], rep: 'core.Report', what: str = 'judged stimuli'):
        missing = sorted(x for x in tags if not self.count.get(x))
        rep.notes.setdefault('census', {})[what] = dict(sorted(self.count.items()))
        if missing:
            raise core.Machinery('%s: the %s never contained: %s (the clauses about them were not exercised)' % (prop, what, missing))


# what the document generator must deliver to a check that speaks about whole documents without comments / properties
BASE = ['table', 'enum', 'ref', 'group', 'sticky', 'project', 'doc.tableless', 'table.alias', 'table.note', 'table.color', 'table.schema',
        'table.same_name_two_schemas', 'col.pk', 'col.unique', 'col.notnull', 'col.autoinc', 'col.default.int', 'col.default.float',
        'col.default.bool', 'col.default.str', 'col.default.expr', 'col.default.null', 'col.default.none', 'col.note',
        'col.type.qualified', 'col.type.suffix', 'col.inline_ref', 'col.inline_ref.>', 'col.inline_ref.<', 'col.inline_ref.-',
        'col.inline_ref.<>', 'idx', 'idx.pk', 'idx.unique', 'idx.type', 'idx.name', 'idx.note', 'idx.expr', 'idx.composite',
        'enum.schema', 'enum.item.note', 'ref.>', 'ref.<', 'ref.-', 'ref.<>', 'ref.name', 'ref.actions', 'ref.composite',
        'ref.before_its_tables', 'ref.standalone_after_inline', 'group.items', 'group.empty', 'group.note', 'group.color',
        'sticky.empty', 'sticky.text', 'sticky.multiline', 'project.items', 'project.note', 'note.multiline', 'note.equal_twins',
        'col.case_variant_siblings', 'table.composite_pk_by_flags']
