"""C09 -- the container stays consistent under any sequence of add, delete and rename.

TLC explores the complete reachable graph of each finite universe (all histories of any length
over it) and checks the declarative invariants; every distinct state comes with one shortest call
sequence.  The harness replays state x call on real objects (every transition of the graph in the
thorough tier, a seeded sample in the quick tier, plus random walks), and TLC decides for every
recorded (pre, call, post) triple whether it is a step of Container.tla."""
from __future__ import annotations

import json
import re
import sys
from typing import Any, Dict, List

from . import core, tlc

UNIVERSES = ['tables', 'others', 'members']


def generate(universe: str, rep: core.Report):
    res = tlc.require_ok(tlc.run('MC_C09_' + universe, workers=core.NCPU, timeout=3000), 'C09 ' + universe)
    if res.violated:
        raise core.Machinery('design-level check failed: %s violated in MC_C09_%s\n%s'
                             % (res.violated, universe, res.out[-3000:]))
    rep.add_tlc('MC_C09_' + universe, res)
    uni = None
    paths: List[List[int]] = []
    for v in res.prints:
        if v[0] == 'UNIVERSE':
            uni = json.loads(v[1])
        elif v[0] == 'P':
            paths.append(v[1])
    if uni is None or len(paths) != res.distinct:
        raise core.Machinery('generator MC_C09_%s: universe or paths missing (%d paths, %d states)'
                             % (universe, len(paths), res.distinct))
    return uni, paths, res


def walks(universe: str, n: int, rep: core.Report) -> List[List[int]]:
    """Random walks through the spec's state machine (only in-domain calls), from TLC -simulate."""
    import os
    cfg = re.sub(r'INVARIANT EmitPath\w*', 'INVARIANT EmitWalk', open(os.path.join(tlc.SPEC_DIR, 'MC_C09_%s.cfg' % universe)).read())
    per = max(1, n // core.NCPU)
    res = tlc.require_ok(tlc.run('MC_C09_' + universe, cfg_text=cfg, workers=core.NCPU, simulate='num=%d' % per,
                                 depth=31, seed=core.seed(), timeout=1200), 'C09 walks ' + universe)
    if res.violated:
        raise core.Machinery('design-level check failed on a random walk: %s\n%s' % (res.violated, res.out[-3000:]))
    ws = [v[1] for v in res.prints if v[0] == 'W']
    if not ws:
        raise core.Machinery('no walks from TLC -simulate for ' + universe)
    m = __import__('re').search(r'The number of states generated: (\d+)', res.out)
    if m:
        res.generated = res.distinct = int(m.group(1))
    rep.add_tlc('MC_C09_%s -simulate' % universe, res)
    return ws


def _exec_chunk(arg):
    from . import container_exec as ce
    uni, items = arg
    ops = uni['ops']
    triples = {}
    nhist = 0
    for path, extra in items:
        calls = [ops[k - 1] for k in path] + [ops[k - 1] for k in extra]
        nhist += 1
        for tr in ce.run_history(uni, calls, log_from=len(path)):
            triples.setdefault(tr, (path, extra))
    return triples, nhist


def check_universe(universe: str, rep: core.Report):
    import hashlib
    uni, paths, res = generate(universe, rep)
    nops = len(uni['ops'])
    r = core.rng('c09' + universe)
    if core.tier() == 'quick':
        chosen = r.sample(paths, min(len(paths), 500))
        nwalks = 320
    else:
        # every state x every call where the graph is small enough; a large seeded sample of the biggest one
        cap = 14000
        chosen = paths if len(paths) <= 30000 else r.sample(paths, cap)
        nwalks = 16000
    complete = len(chosen) == len(paths)
    seen = set()
    cov: Dict[str, int] = {}
    nhist = ntriples = skipped = 0
    sample = None
    batches = core.chunked(chosen, max(1, len(chosen) // 1500)) if len(chosen) > 1500 else [chosen]
    walks_left = walks(universe, nwalks, rep)
    for bi, batch in enumerate(batches):
        items = [(p, [k]) for p in batch for k in range(1, nops + 1)]
        if bi == 0:
            # random walks chosen by TLC (in-domain calls only): path-dependent hidden state
            items += [([], w) for w in walks_left]
        chunks = [(uni, c) for c in core.chunked(items, core.NCPU * 2)]
        triples: Dict[Any, Any] = {}
        for tr, n in core.pmap(_exec_chunk, chunks):
            nhist += n
            for k, v in tr.items():
                h = hashlib.sha1(repr(k).encode()).digest()
                if h not in seen:
                    seen.add(h)
                    triples[k] = v
        keys = list(triples)
        recs = [{'tid': i + 1, 'pre': json.loads(pre), 'call': json.loads(call), 'post': json.loads(post)}
                for i, (pre, call, post) in enumerate(keys)]
        verdicts, st = core.validate('TraceC09_' + universe, 'TraceC09_' + universe + '.cfg', recs)
        rep.add_val_stats('TraceC09_%s batch %d' % (universe, bi + 1), st)
        ntriples += len(keys)
        for i, k in enumerate(keys):
            v = verdicts[i + 1]
            if v == '':
                rep.traces_ok += 1
                call = json.loads(k[1])
                kk = '%s -> %s' % (call['op'], json.loads(k[2])['out'])
                cov[kk] = cov.get(kk, 0) + 1
                if json.loads(k[2])['out'] != 'ok' or call['op'] != 'rename':
                    rep.mark_nontrivial([universe, k])
            elif v == 'out-of-domain':
                skipped += 1
            else:
                path, extra = triples[k]
                rep.violation({'universe': universe, 'calls_before': [uni['ops'][j - 1] for j in path],
                               'then': [uni['ops'][j - 1] for j in extra]},
                              {'failing_clause': v, 'pre': json.loads(k[0]), 'call': json.loads(k[1]),
                               'post_observed': json.loads(k[2])})
        if keys and sample is None:
            k = keys[len(keys) // 2]
            sample = {'universe': universe, 'call': json.loads(k[1]), 'post': json.loads(k[2])}
    rep.evaluations += nhist
    # vacuity: every kind of call of the universe must have been observed succeeding, and every kind that the
    # specification can refuse must have been observed refused
    kinds = {o['op'] for o in uni['ops']}
    never = sorted(k for k in kinds if not any(x.startswith(k + ' -> ') for x in cov))
    if never:
        raise core.Machinery('universe %s: calls never exercised: %s' % (universe, never))
    rep.notes.setdefault('accepted_steps_by_call_and_outcome', {})[universe] = dict(sorted(cov.items()))
    rep.notes.setdefault('per_universe', {})[universe] = {
        'reachable_states': res.distinct, 'graph_transitions': res.generated, 'calls': nops,
        'states_replayed_with_every_call': len(chosen), 'every_state_replayed': complete,
        'histories_executed': nhist, 'distinct_triples': ntriples, 'out_of_domain_skipped': skipped}
    if sample:
        rep.samples.append(sample)


def _parse_chunk(items):
    """parse documents (valid and faulty) with the run-time recorder on: the parser's phase-2 schedule of container calls"""
    from . import container_trace as ct
    from .surface import print_doc
    from pydbml import PyDBML
    ct.install()
    out = []
    for tid, doc, allow in items:
        ct.reset()
        try:
            text = print_doc(doc, tid, {}, None)
        except AssertionError:
            continue
        try:
            PyDBML(text, allow_properties=allow)
        except Exception:
            pass
        seen = set()
        for e in ct.EVENTS:
            k = json.dumps([e['call'], e['outcome'], e['pre'], e['post']], sort_keys=True)
            if k not in seen:
                seen.add(k)
                out.append({'call': e['call'], 'outcome': e['outcome'], 'pre': e['pre'], 'post': e['post'],
                            'where': {'document_seed': tid, 'text': text, 'allow_properties': allow}})
    return out


def _edit_chunk(items):
    """C10's edit histories (Edits!ChooseEdit) applied to real databases with the recorder on"""
    from . import container_trace as ct, c10, builder
    from .surface import print_doc
    from pydbml import PyDBML
    ct.install()
    out = []
    for tid, d in items:
        ct.reset()
        try:
            db = PyDBML(print_doc(d['doc'], None, {})) if tid % 2 else builder.build(d['model'])
            for h in d['history']:
                c10.apply_edit(db, h['edit'])
        except Exception:
            pass
        seen = set()
        for e in ct.EVENTS:
            k = json.dumps([e['call'], e['outcome'], e['pre'], e['post']], sort_keys=True)
            if k not in seen:
                seen.add(k)
                out.append({'call': e['call'], 'outcome': e['outcome'], 'pre': e['pre'], 'post': e['post'],
                            'where': {'edit_history_seed': tid, 'edits': [h['edit'] for h in d['history']]}})
    return out


def suite_events() -> List[Dict[str, Any]]:
    """run the repository's own test-suite with the recorder loaded as a pytest plugin (nothing is written to the repository)"""
    import os
    import subprocess
    work = tlc.new_dir('suite')
    out = os.path.join(work, 'events.ndjson')
    repo = os.environ.get('VERIF_REPO', '/repo')
    env = dict(os.environ, PV_TRACE_OUT=out, PYTHONPATH='%s:%s' % (core.VERIF, repo), PYTHONDONTWRITEBYTECODE='1')
    p = subprocess.run([sys.executable, '-B', '-m', 'pytest', '-q', '-p', 'pv.container_trace', '-p', 'no:cacheprovider',
                        '-x', '--timeout=900'], cwd=repo, env=env, capture_output=True, text=True, timeout=1800)
    if not os.path.exists(out):
        raise core.Machinery('the recorder plugin wrote no events (pytest exit %s)\n%s' % (p.returncode, (p.stdout + p.stderr)[-2000:]))
    evs = [json.loads(ln) for ln in open(out)]
    skipped = int(open(out + '.skipped').read() or 0)
    return evs, skipped, p.returncode


def check_recorded(rep: core.Report):
    """Executions the specification did not choose -- the repository's test-suite and the parser's phase-2 schedule --
    recorded at the public container methods and judged by TLC against ContainerInv.tla."""
    from . import docs
    evs, skipped, rc = suite_events()
    if len(evs) < 300:
        raise core.Machinery('only %d container calls recorded from the test-suite' % len(evs))
    nsuite = len(evs)
    ndocs = 400 if core.tier() == 'quick' else 6000
    base = core.seed() * 100000
    gen = docs.gen_docs(base + 1, base + ndocs, True, rep, with_comments=False)
    faults = docs.gen_faults(base + 1, base + ndocs // 2, rep)
    items = [(sd, d, sd % 2 == 0) for sd, d in gen] + [(sd, f['doc'], False) for sd, f in faults]
    for part in core.pmap(_parse_chunk, core.chunked(items, core.NCPU * 2)):
        evs += part
    from . import c10
    nh = 150 if core.tier() == 'quick' else 3000
    hs = c10.gen(base + 1, base + nh, 6, False, rep)
    for part in core.pmap(_edit_chunk, core.chunked(hs, core.NCPU * 2)):
        evs += part
    for i, e in enumerate(evs):
        e['tid'] = i + 1
    verdicts, st = core.validate('TraceContainerInv', 'TraceContainerInv.cfg',
                                 [{k: e[k] for k in ('tid', 'call', 'outcome', 'pre', 'post')} for e in evs])
    rep.add_val_stats('TraceContainerInv', st)
    cov: Dict[str, int] = {}
    unjudged = 0
    for e in evs:
        v = verdicts[e['tid']]
        if v == '':
            rep.traces_ok += 1
            k = '%s -> %s' % (e['call'], e['outcome'])
            cov[k] = cov.get(k, 0) + 1
            if e['pre'] != e['post'] or e['outcome'] != 'ok':
                rep.mark_nontrivial(['recorded', e['tid']])
        elif v == 'pre-state-not-consistent':
            unjudged += 1          # a test that builds an inconsistent state on purpose: the call is not judged
        else:
            rep.violation({'recorded': e['where'], 'call': e['call']},
                          {'failing_clause': v, 'outcome': e['outcome'], 'pre': e['pre'], 'post': e['post']})
    rep.evaluations += len(evs)
    for need in ('Database.add_table -> ok', 'Database.add_reference -> ok', 'Database.delete_table -> ok',
                 'Table.add_column -> ok', 'Database.add_table -> DatabaseValidationError'):
        if not cov.get(need):
            raise core.Machinery('recorded executions never showed %r' % need)
    rep.notes['recorded_executions'] = {
        'test_suite_calls': nsuite, 'test_suite_calls_not_describable': skipped, 'pytest_exit': rc,
        'parser_and_edit_calls': len(evs) - nsuite, 'documents_parsed': len(items), 'edit_histories': len(hs), 'pre_state_inconsistent_not_judged': unjudged,
        'accepted_by_call_and_outcome': dict(sorted(cov.items()))}


def replay(path: str, rep: core.Report) -> int:
    """Re-execute a recorded stimulus on the current tree and let TLC judge every step again."""
    from . import container_exec as ce
    v = json.load(open(path))
    st = v['stimulus']
    universe = st['universe']
    uni, _, _ = generate(universe, rep)
    core.setup_env()
    calls = st['calls_before'] + st['then']
    triples = ce.run_history(uni, calls, log_from=0)
    recs = [{'tid': i + 1, 'pre': json.loads(a), 'call': json.loads(b), 'post': json.loads(c)}
            for i, (a, b, c) in enumerate(triples)]
    verdicts, _ = core.validate('TraceC09_' + universe, 'TraceC09_' + universe + '.cfg', recs)
    bad = [(i, verdicts[i + 1]) for i in range(len(recs)) if verdicts[i + 1] not in ('', 'out-of-domain')]
    for i, cl in bad:
        print('step %d %s: failing clause %s' % (i + 1, json.dumps(recs[i]['call']), cl))
    if bad:
        print('VIOLATION property=C09 replay=%s' % path)
        return 1
    print('replay: every step is a step of Container.tla on the current tree')
    return 0


def main(argv: List[str]) -> int:
    rep = core.Report('C09', 'TLC exhaustive reachability of Container.tla + per-transition replay on real objects, '
                             'TLC trace validation of (pre, call, post) triples')
    rep.rule = ('stimulus = shortest call path to a reachable spec state + one further call (every call of the '
                'universe), plus random walks; distinct = distinct (pre, call, post) triples; non-trivial = the '
                'call mutates the container or is rejected')
    rep.assumptions = ['projection and universe builder in pv/container_exec.py are trusted',
                       'structural equality is modelled by Eq* in Container.tla as transcribed from SQLObject.__eq__']
    if '--replay' in argv:
        return replay(argv[argv.index('--replay') + 1], rep)
    only = [a for a in argv if a in UNIVERSES + ['recorded']] or UNIVERSES + ['recorded']
    for u in only:
        if u == 'recorded':
            check_recorded(rep)
        else:
            check_universe(u, rep)
    return rep.finish()


if __name__ == '__main__':
    try:
        sys.exit(main(sys.argv[1:]))
    except (core.Machinery, tlc.TlcFailure) as ex:
        print('MACHINERY-FAILURE C09: %s' % ex, file=sys.stderr)
        sys.exit(2)
