"""Engine of the DBML-renderer checks: database under test -> .dbml -> parse -> .dbml, projected
before and after; TraceDbml.tla decides (C02; output side of C13, C14, C15)."""
from __future__ import annotations

import json
from typing import Any, Dict, List

from . import core, tlc
from .surface import print_doc

CLAUSES = ['binding', 'content', 'fixpoint', 'comments', 'props']


def _exec_chunk(items):
    from . import project as pj, builder
    from pydbml import PyDBML
    out = []
    for it in items:
        m = it.get('model')
        text0 = None
        try:
            if it['route'] == 'text':
                # a real document: the model IS the projection of its parse
                text0 = it['text']
                db0 = PyDBML(text0, allow_properties=it['allow'])
                m = pj.project_db(db0)
            elif it['route'].startswith('morphed'):
                db0 = builder.build_morphed(m, it['route'].split(':')[1].split('+'))
            elif it['route'] == 'moved':
                db0 = builder.build_moved(m)
            elif it['route'] == 'built_alias_namesake':
                db0, m = builder.build_alias_namesake(m)
            elif it['route'] == 'parsed':
                text0 = print_doc(it['doc'], it['fseed'], it['pinned'])
                db0 = PyDBML(text0, allow_properties=m['allowprops'])
            else:
                db0 = builder.build(m, note_as_object='shared' if it['route'] == 'built_shared_notes' else it['route'] == 'built_notes')
            for flag in it.get('flips', []):            # C15: the database's flag is switched after it was built
                db0.allow_properties = flag
                _ = db0.dbml                            # and rendered in between
            s0 = pj.project_db(db0)
        except Exception as ex:
            out.append({'tid': it['tid'], 'model': m, 's0': {'kind': 'error', 'class': pj.classify(ex)},
                        's1': {'kind': 'error', 'class': 'not-run'}, 'fix': True, '_text0': text0, '_text1': None})
            continue
        text1 = text2 = None
        try:
            text1 = db0.dbml
        except Exception as ex:
            s1 = {'kind': 'error', 'class': 'render:' + pj.classify(ex)}
        else:
            try:
                db1 = PyDBML(text1, allow_properties=m['allowprops'])
                s1 = pj.project_db(db1)
                try:
                    text2 = db1.dbml
                except Exception as ex:
                    text2 = 'render error: ' + pj.classify(ex)
            except Exception as ex:
                s1 = {'kind': 'error', 'class': pj.classify(ex)}
        out.append({'tid': it['tid'], 'model': m, 's0': s0, 's1': s1, 'fix': text1 == text2 or text2 is None,
                    '_text0': text0, '_text1': text1, '_text2': text2 if text2 != text1 else None})
    return out


def run_items(items: List[Dict[str, Any]], rep: core.Report, label: str):
    """-> {tid: (verdict dict clause->text, record)}"""
    chunks = core.chunked(items, core.NCPU * 4)
    recs: List[Dict[str, Any]] = []
    for part in core.pmap(_exec_chunk, chunks):
        recs += part
    extra = {r['tid']: {k: r.pop(k) for k in list(r) if k.startswith('_')} for r in recs}
    verdicts, st = core.validate('TraceDbml', 'TraceDbml.cfg', recs)
    rep.add_val_stats('TraceDbml ' + label, st)
    out = {}
    for r in recs:
        r.update(extra[r['tid']])
        v = verdicts[r['tid']]
        out[r['tid']] = (dict(zip(CLAUSES, v)), r)
    return out
