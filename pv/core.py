"""Shared machinery of every check: executor pool, TLC batch validation, triage, evidence."""
from __future__ import annotations

import concurrent.futures as cf
import hashlib
import json
import multiprocessing as mp
import os
import random
import sys
import time
from typing import Any, Callable, Dict, Iterable, List, Optional, Sequence, Tuple

from . import tlc

VERIF = os.path.dirname(os.path.dirname(os.path.abspath(__file__)))
NCPU = min(16, os.cpu_count() or 4)


class Machinery(Exception):
    """Something in the verification machinery failed; exit 2, never a property verdict."""


def setup_env():
    """Environment for importing /repo's working tree with hooks on and no bytecode written there."""
    os.environ.setdefault('PYDBML_VERIF', '1')
    os.environ['PYTHONDONTWRITEBYTECODE'] = '1'
    os.environ.setdefault('PYTHONHASHSEED', '0')
    sys.dont_write_bytecode = True
    repo = os.environ.get('VERIF_REPO', '/repo')       # default: the repository's working tree
    if repo not in sys.path:
        sys.path.insert(0, repo)


def tier() -> str:
    t = os.environ.get('VERIF_TIER', 'quick')
    return t if t in ('quick', 'thorough') else 'quick'


def seed() -> int:
    try:
        return int(os.environ.get('VERIF_SEED', '1'))
    except ValueError:
        return 1


# ---------------------------------------------------------------------------------------------
# executor pool
# ---------------------------------------------------------------------------------------------
def _init_worker():
    setup_env()


def pmap(func: Callable[[Any], Any], chunks: Sequence[Any], procs: int = NCPU) -> List[Any]:
    """Apply func to every chunk in worker processes (fork; each imports /repo afresh lazily)."""
    if not chunks:
        return []
    if procs <= 1 or len(chunks) == 1:
        _init_worker()
        return [func(c) for c in chunks]
    from . import tlc as _tlc
    _tlc.scratch()          # created in the parent: the forked workers inherit it, the parent removes it at exit
    ctx = mp.get_context('fork')
    with ctx.Pool(min(procs, len(chunks)), initializer=_init_worker) as pool:
        return pool.map(func, chunks, chunksize=1)


def chunked(items: Sequence[Any], n: int) -> List[List[Any]]:
    n = max(1, n)
    size = (len(items) + n - 1) // n or 1
    return [list(items[i:i + size]) for i in range(0, len(items), size)]


# ---------------------------------------------------------------------------------------------
# TLC batch validation: records -> {tid: verdict clause ("" = accepted)}
# ---------------------------------------------------------------------------------------------
def validate(module: str, cfg: str, records: List[Dict[str, Any]], shards: int = NCPU,
             timeout: int = 3600, cfg_text: Optional[str] = None,
             extra_env: Optional[Dict[str, str]] = None) -> Tuple[Dict[int, Any], Dict[str, int]]:
    """Every record must carry a unique integer 'tid'.  Returns verdicts and TLC statistics."""
    stats = {'states': 0, 'transitions': 0, 'tlc_runs': 0}
    if not records:
        return {}, stats
    work = tlc.new_dir('val')
    # at least 200 and at most 4000 records per TLC run; at most `shards` runs at a time (2 GB heap each)
    nsh = max(1, min(shards, (len(records) + 199) // 200), (len(records) + 3999) // 4000)
    nsh = max(nsh, (len(records) + 3999) // 4000)
    parts = chunked(records, nsh)
    files = []
    for i, part in enumerate(parts):
        fn = os.path.join(work, 'trace_%d.ndjson' % i)
        with open(fn, 'w') as f:
            for r in part:
                f.write(json.dumps(r, separators=(',', ':')))
                f.write('\n')
        files.append(fn)

    def one(fn):
        env = {'TRACE_FILE': fn}
        if extra_env:
            env.update(extra_env)
        return tlc.run(module, cfg=cfg, cfg_text=cfg_text, workers=1, env=env, timeout=timeout, heap='2500m')

    verdicts: Dict[int, Any] = {}
    with cf.ThreadPoolExecutor(max_workers=min(NCPU, len(files))) as ex:
        results = list(ex.map(one, files))
    for fn, res in zip(files, results):
        if res.error or res.violated:
            raise Machinery('trace validation with %s failed: %s\n%s' % (module, res.error or res.violated, res.out[-4000:]))
        stats['states'] += res.distinct
        stats['transitions'] += res.generated
        stats['tlc_runs'] += 1
        for v in res.prints:
            if isinstance(v, list) and v and v[0] == 'VERDICT':
                verdicts[v[1]] = v[2] if len(v) == 3 else v[2:]
    missing = [r['tid'] for r in records if r['tid'] not in verdicts]
    if missing:
        raise Machinery('no verdict for %d traces (first tid %s) from %s' % (len(missing), missing[0], module))
    return verdicts, stats


# ---------------------------------------------------------------------------------------------
# known findings
# ---------------------------------------------------------------------------------------------
def known_findings(prop: str) -> List[Dict[str, Any]]:
    fn = os.path.join(VERIF, 'known_findings.json')
    if not os.path.exists(fn):
        return []
    with open(fn) as f:
        data = json.load(f)
    return [k for k in data.get('known', []) if k.get('property') == prop or prop in k.get('also', [])]


# ---------------------------------------------------------------------------------------------
# results, evidence
# ---------------------------------------------------------------------------------------------
class Report:
    """Collects what a check run covered and decides the exit status."""

    def __init__(self, prop: str, technique: str):
        self.prop = prop
        self.t0 = time.time()
        self.technique = technique
        self.states = 0
        self.transitions = 0
        self.traces_ok = 0
        self.evaluations = 0
        self.nontrivial = set()
        self.samples: List[Any] = []
        self.violations: List[Dict[str, Any]] = []
        self.known_hits: Dict[str, int] = {}
        self.notes: Dict[str, Any] = {}
        self.assumptions: List[str] = []
        self.rule = ''
        self.exhaustive = False
        self.tlc_runs: List[Dict[str, Any]] = []

    def add_tlc(self, name: str, res: 'tlc.TlcResult'):
        self.states += res.distinct
        self.transitions += res.generated
        self.tlc_runs.append({'run': name, 'distinct': res.distinct, 'generated': res.generated,
                              'depth': res.depth, 'wall_s': round(res.wall_s, 2)})

    def add_val_stats(self, name: str, st: Dict[str, int]):
        self.states += st['states']
        self.transitions += st['transitions']
        self.tlc_runs.append({'run': name, **st})

    def mark_nontrivial(self, key: Any):
        self.nontrivial.add(hashlib.sha1(json.dumps(key, sort_keys=True, default=str).encode()).hexdigest())

    def violation(self, stimulus: Any, detail: Any):
        self.violations.append({'stimulus': stimulus, 'detail': detail})

    def known(self, fid: str):
        self.known_hits[fid] = self.known_hits.get(fid, 0) + 1

    def finish(self, extra_cov: Optional[Dict[str, Any]] = None) -> int:
        out_root = os.environ.get('VERIF_OUT', VERIF)      # tools/seed_matrix.sh keeps its output away from evidence/ and replays/
        os.makedirs(os.path.join(out_root, 'evidence'), exist_ok=True)
        rc = 0
        lines = []
        for fid, n in sorted(self.known_hits.items()):
            kf = [k for k in known_findings(self.prop) if k['id'] == fid]
            what = kf[0]['what'] if kf else ''
            lines.append('KNOWN-FINDING: property=%s %s %s (%d cases)' % (self.prop, fid, what, n))
        rdir = os.path.join(out_root, 'replays', self.prop)
        if os.path.isdir(rdir) and self.technique != 'replay':
            for fn in os.listdir(rdir):            # replay files of earlier runs would only mislead
                if fn.endswith('.json'):
                    os.remove(os.path.join(rdir, fn))
        if self.violations:
            rc = 1
            os.makedirs(rdir, exist_ok=True)
            seen = set()
            for v in self.violations[:20]:
                blob = json.dumps(v, sort_keys=True, default=str)
                h = hashlib.sha1(blob.encode()).hexdigest()[:12]
                if h in seen:
                    continue
                seen.add(h)
                path = os.path.join(rdir, h + '.json')
                with open(path, 'w') as f:
                    json.dump(v, f, indent=1, sort_keys=True, default=str)
                lines.append('VIOLATION property=%s replay=%s' % (self.prop, path))
        cov = {
            'states': max(self.states, 0), 'transitions': max(self.transitions, 0),
            'traces_validated_against_impl': self.traces_ok,
            'evaluations': self.evaluations,
            'distinct_nontrivial': len(self.nontrivial),
            'rule': self.rule,
            'samples': self.samples[:6] or ['(none)'],
            'exhaustive': self.exhaustive,
            'tlc_runs': self.tlc_runs,
            'known_finding_hits': self.known_hits,
            'technique': self.technique,
        }
        cov.update(self.notes)
        if extra_cov:
            cov.update(extra_cov)
        ev = {
            'property_id': self.prop, 'tier': tier(), 'seed': seed(), 'level': 'model_checking',
            'coverage': cov, 'assumptions': self.assumptions,
            'wall_s': round(time.time() - self.t0, 2), 'violations': len(self.violations),
        }
        with open(os.path.join(out_root, 'evidence', self.prop + '.json'), 'w') as f:
            json.dump(ev, f, indent=1, sort_keys=True, default=str)
        for ln in lines:
            print(ln)
        print('%s %s: %d stimuli, %d traces accepted, %d violations, %d known-finding hits, %.1fs'
              % (self.prop, tier(), self.evaluations, self.traces_ok, len(self.violations),
                 sum(self.known_hits.values()), time.time() - self.t0))
        sys.stdout.flush()
        return rc


def rng(extra: str = '') -> random.Random:
    return random.Random('%d/%s' % (seed(), extra))
