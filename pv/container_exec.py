"""Drive real pydbml Database/Table objects along call sequences chosen by TLC (Container.tla)
and project the real objects back onto the specification's state record."""
from __future__ import annotations

import json
from typing import Any, Dict, List, Tuple


def _import():
    from pydbml.database import Database
    from pydbml.classes import (Table, Column, Index, Reference, Enum, EnumItem, TableGroup, Project,
                                Expression)
    from pydbml._classes.sticky_note import StickyNote
    return locals()


class World:
    """The real objects of one universe (built afresh for every history)."""

    def __init__(self, universe: Dict[str, Any]):
        P = _import()
        self.u = universe
        self.db = P['Database']()
        self.obj: Dict[int, Any] = {}
        self.kind: Dict[int, str] = {}
        for c in universe['cols']:
            self._put(c['id'], 'col', P['Column'](c['name'], c['type']))
        for i in universe['idxs']:
            subj = [self.obj[x] if x else P['Expression']('lower(x)') for x in i['subj']]
            self._put(i['id'], 'idx', P['Index'](subjects=subj, name=i['sig'] or None))
        for t in universe['tables']:
            tab = P['Table'](t['name'], schema=t['schema'], alias=t['alias'] or None, note=t['sig'])
            for c in t['cols']:
                tab.add_column(self.obj[c])
            for i in t['idxs']:
                tab.add_index(self.obj[i])
            self._put(t['id'], 'table', tab)
        for r in universe['refs']:
            self._put(r['id'], 'ref', P['Reference'](r['type'], [self.obj[c] for c in r['c1']],
                                                     [self.obj[c] for c in r['c2']],
                                                     name=r['sig'] or None, inline=r['inline']))
        for e in universe['enums']:
            self._put(e['id'], 'enum', P['Enum'](e['name'], list(e['items']), schema=e['schema']))
        for g in universe['groups']:
            self._put(g['id'], 'group', P['TableGroup'](g['name'], []))
        for n in universe['stickies']:
            self._put(n['id'], 'sticky', P['StickyNote'](n['name'], n['text']))
        for p in universe['projects']:
            self._put(p['id'], 'project', P['Project'](p['name']))
        for j in universe['junk']:
            self._put(j['id'], 'junk', 'not a pydbml object' if j['what'] == 'str' else object())
        self.ident = {id(o): k for k, o in self.obj.items()}

    def _put(self, k, kind, o):
        self.obj[k] = o
        self.kind[k] = kind

    def oid(self, o) -> int:
        if o is None:
            return 0
        return self.ident.get(id(o), 999)

    # ---- calls --------------------------------------------------------------------------
    def call(self, c: Dict[str, Any]) -> str:
        op = c['op']
        db = self.db
        try:
            if op == 'add':
                db.add(self.obj[c['o']])
            elif op == 'add_x':
                k = self.kind[c['o']]
                m = {'table': db.add_table, 'ref': db.add_reference, 'enum': db.add_enum,
                     'group': db.add_table_group, 'sticky': db.add_sticky_note,
                     'project': db.add_project}.get(k, db.add)
                m(self.obj[c['o']])
            elif op == 'delete':
                db.delete(self.obj[c['o']])
            elif op == 'delete_x':
                k = self.kind[c['o']]
                if k == 'project':
                    db.delete_project()
                else:
                    m = {'table': db.delete_table, 'ref': db.delete_reference, 'enum': db.delete_enum,
                         'group': db.delete_table_group}.get(k, db.delete)
                    m(self.obj[c['o']])
            elif op == 'rename':
                v = c['v']
                if c['f'] == 'alias' and v == '':
                    v = None
                setattr(self.obj[c['t']], c['f'], v)
            elif op == 'add_column':
                self.obj[c['t']].add_column(self.obj[c['o']])
            elif op == 'delete_column':
                self.obj[c['t']].delete_column(self.obj[c['o']])
            elif op == 'delete_column_pos':
                self.obj[c['t']].delete_column(c['k'] - 1)
            elif op == 'add_index':
                self.obj[c['t']].add_index(self.obj[c['o']])
            elif op == 'delete_index':
                self.obj[c['t']].delete_index(self.obj[c['o']])
            elif op == 'delete_index_pos':
                self.obj[c['t']].delete_index(c['k'] - 1)
            else:
                raise RuntimeError('harness: unknown op %r' % op)
            return 'ok'
        except RuntimeError:
            raise
        except Exception as ex:                      # the outcome class is an observable
            return type(ex).__name__

    # ---- projection ---------------------------------------------------------------------
    def project(self, out: str) -> Dict[str, Any]:
        db, u = self.db, self.u
        oid = self.oid
        anom: List[str] = []
        own = []
        for k, o in sorted(self.obj.items()):
            if self.kind[k] in ('table', 'ref', 'enum', 'group', 'sticky', 'project'):
                d = getattr(o, 'database', None)
                if d is not None and d is not db:
                    anom.append('database of %d is a foreign object' % k)
                own.append([k, d is db])
        attr, cols, idxs = [], [], []
        for t in u['tables']:
            o = self.obj[t['id']]
            attr.append({'id': t['id'], 'name': o.name, 'schema': o.schema, 'alias': o.alias or ''})
            cols.append([t['id'], [oid(c) for c in o.columns]])
            idxs.append([t['id'], [oid(i) for i in o.indexes]])
        ctab = [[c['id'], oid(self.obj[c['id']].table)] for c in u['cols']]
        itab = [[i['id'], oid(self.obj[i['id']].table)] for i in u['idxs']]
        # observers: iteration, positional and keyed lookup, one level down too
        try:
            it = [oid(t) for t in db]
        except Exception as ex:
            it = [998]
            anom.append('iter: ' + type(ex).__name__)
        pos = []
        for i in range(len(db.tables)):
            try:
                pos.append(oid(db[i]))
            except Exception as ex:
                pos.append(998)
        lookup = []
        for k in u['keypool']:
            try:
                lookup.append([k, oid(db[k])])
            except KeyError:
                lookup.append([k, 0])
            except Exception as ex:
                lookup.append([k, 998])
        tget = []
        for t in u['tables']:
            o = self.obj[t['id']]
            for nm in u['colnames']:
                try:
                    a = oid(o[nm])
                except Exception as ex:
                    a = 0 if type(ex).__name__ == 'ColumnNotFoundError' else 998
                b = oid(o.get(nm))
                tget.append([t['id'], nm, a, b])
            tget.append([t['id'], '#iter', 1 if [oid(c) for c in o] == [oid(c) for c in o.columns] else 0,
                         1 if all(o[i] is o.columns[i] for i in range(len(o.columns))) else 0])
        return {
            'tables': [oid(t) for t in db.tables],
            'tdict': sorted([k, oid(v)] for k, v in db.table_dict.items()),
            'refs': [oid(r) for r in db.refs],
            'enums': [oid(e) for e in db.enums],
            'groups': [oid(g) for g in db.table_groups],
            'notes': [oid(n) for n in db.sticky_notes],
            'project': oid(db.project),
            'own': own, 'attr': attr, 'cols': cols, 'idxs': idxs, 'ctab': ctab, 'itab': itab,
            'out': out, 'iter': it, 'pos': pos, 'lookup': lookup, 'tget': tget, 'anom': anom,
        }


def run_history(universe, calls: List[Dict[str, Any]], log_from: int = 0) -> List[Tuple[str, str, str]]:
    """Execute `calls` on fresh objects; return (pre, call, post) JSON triples for steps >= log_from."""
    w = World(universe)
    out = []
    pre = None
    for i, c in enumerate(calls):
        if i >= log_from and pre is None:
            pre = w.project('ok')
        res = w.call(c)
        if i >= log_from:
            post = w.project(res)
            out.append((json.dumps(pre, sort_keys=True), json.dumps(c, sort_keys=True), json.dumps(post, sort_keys=True)))
            post2 = dict(post)
            post2['out'] = 'ok'
            pre = post2
    return out
